package main

import (
	"go/types"

	"golang.org/x/tools/go/ssa"
)

// T-ONEMEASURE — one reading of the file offset labels one object. In
// writeRowGroup and the helpers it calls, a single load of
// offsetTrackingWriter.offset is not stored into two different offset fields
// of the footer metadata (DictionaryPageOffset, DataPageOffset,
// BloomFilterOffset, RowGroup.FileOffset) with, between the two stores, a call
// that can advance the offset (a call that is handed the offset-tracking
// writer, or a module function that statically reaches one): the second object
// starts after what that call wrote. Paths that read the offset again do not
// count (the walk from the advancing call to the second store avoids the block
// of the load).
func c02OneMeasure(c *Ctx, rule string) {
	p := c.P
	wr := "(*writer).writeRowGroup"
	obj := p.LookupFunc(wr)
	offF := p.LookupField("offsetTrackingWriter", "offset")
	otw := p.LookupType("offsetTrackingWriter")
	if !c.Anchor(rule, wr, obj != nil) || !c.Anchor(rule, "offsetTrackingWriter.offset", offF != nil && otw != nil) {
		return
	}
	sinks := map[*types.Var]string{}
	for _, k := range [][2]string{{"format.ColumnMetaData", "DictionaryPageOffset"}, {"format.ColumnMetaData", "DataPageOffset"}, {"format.ColumnMetaData", "BloomFilterOffset"}, {"format.RowGroup", "FileOffset"}} {
		f := p.LookupField(k[0], k[1])
		if !c.Anchor(rule, k[0]+"."+k[1], f != nil) {
			return
		}
		sinks[f] = k[1]
	}
	isTracker := func(v ssa.Value) bool {
		if mi, ok := v.(*ssa.MakeInterface); ok {
			v = mi.X
		}
		pt, ok := v.Type().(*types.Pointer)
		if !ok {
			return false
		}
		n, ok := pt.Elem().(*types.Named)
		return ok && n.Obj() == otw.Obj()
	}
	// module functions that can advance the offset (static closure)
	direct := map[*ssa.Function]bool{}
	callees := map[*ssa.Function][]*ssa.Function{}
	for _, fn := range p.ModuleSSAFuncs() {
		if fn.Blocks == nil {
			continue
		}
		allInstrs(fn, true, func(_ *ssa.Function, ins ssa.Instruction) {
			switch x := ins.(type) {
			case *ssa.Store:
				if fs, _, _ := fieldChain(x.Addr); len(fs) > 0 && fs[len(fs)-1] == offF {
					direct[fn] = true
				}
			case ssa.CallInstruction:
				for _, a := range x.Common().Args {
					if isTracker(a) {
						direct[fn] = true
					}
				}
				if cal := x.Common().StaticCallee(); cal != nil {
					callees[fn] = append(callees[fn], cal)
				}
			}
		})
	}
	memo := map[*ssa.Function]int{}
	var advances func(f *ssa.Function) bool
	advances = func(f *ssa.Function) bool {
		switch memo[f] {
		case 1:
			return true
		case 2, 3:
			return false
		}
		memo[f] = 3
		res := direct[f]
		for _, g := range callees[f] {
			if !res && advances(g) {
				res = true
			}
		}
		if res {
			memo[f] = 1
		} else {
			memo[f] = 2
		}
		return res
	}
	advancing := func(call ssa.CallInstruction) bool {
		cc := call.Common()
		for _, a := range cc.Args {
			if isTracker(a) {
				return true
			}
		}
		if cc.IsInvoke() && isTracker(cc.Value) {
			return true
		}
		if cal := cc.StaticCallee(); cal != nil && inModule(cal) {
			for k := range memo { // a cycle cut leaves provisional entries
				if memo[k] == 3 {
					delete(memo, k)
				}
			}
			return advances(cal)
		}
		return false
	}
	// path a → b that does not run through the block `avoid` again
	pathAvoiding := func(a, b ssa.Instruction, avoid ssa.Instruction) bool {
		if a.Block() == b.Block() {
			seenA := false
			for _, ins := range a.Block().Instrs {
				if ins == a {
					seenA = true
					continue
				}
				if seenA && ins == avoid {
					break
				}
				if seenA && ins == b {
					return true
				}
			}
		}
		av := map[*ssa.BasicBlock]bool{avoid.Block(): true}
		for _, s := range a.Block().Succs {
			if av[s] {
				continue
			}
			if reachableAvoidingSet(s, av, nil)[b.Block()] {
				return true
			}
		}
		return false
	}
	scope := []*ssa.Function{p.SSAFunc(obj)}
	seenFn := map[*ssa.Function]bool{scope[0]: true}
	for i := 0; i < len(scope) && i < 64; i++ {
		allCalls(scope[i], true, func(_ *ssa.Function, call ssa.CallInstruction) {
			if sc := call.Common().StaticCallee(); sc != nil && inModule(sc) && sc.Blocks != nil && fnPkg(sc) == fnPkg(scope[0]) && !seenFn[sc] && len(scope) < 64 {
				seenFn[sc] = true
				scope = append(scope, sc)
			}
		})
	}
	nstores := 0
	for _, fn := range scope {
		type labelled struct {
			st    *ssa.Store
			field *types.Var
		}
		by := map[ssa.Value][]labelled{}
		var order []ssa.Value
		allInstrs(fn, false, func(_ *ssa.Function, ins ssa.Instruction) {
			st, ok := ins.(*ssa.Store)
			if !ok {
				return
			}
			fs, _, _ := fieldChain(st.Addr)
			if len(fs) == 0 || sinks[fs[len(fs)-1]] == "" {
				return
			}
			for _, o := range Origins(st.Val, OriginOpts{}) {
				if o.Kind == OrgField && o.Field == offF {
					if by[o.Val] == nil {
						order = append(order, o.Val)
					}
					by[o.Val] = append(by[o.Val], labelled{st, fs[len(fs)-1]})
					nstores++
				}
			}
		})
		for li, ld := range order {
			ldi, ok := ld.(ssa.Instruction)
			if !ok {
				continue
			}
			ls := by[ld]
			okAll := true
			detail := ""
			for _, a := range ls {
				for _, b := range ls {
					if a.field == b.field || !okAll {
						continue
					}
					allCalls(fn, false, func(_ *ssa.Function, call ssa.CallInstruction) {
						ci, ok := call.(ssa.Instruction)
						if !ok || !okAll || !advancing(call) {
							return
						}
						if pathAvoiding(a.st, ci, ldi) && pathAvoiding(ci, b.st, ldi) {
							okAll = false
							detail = FuncKey(fn) + " records the file offset read at " + p.Pos(ld.Pos()) + " as " + sinks[a.field] + " (" + p.Pos(a.st.Pos()) + "), then calls " + calleeName(call) + " at " + p.Pos(call.Pos()) + ", which can write to the file, and records the same reading as " + sinks[b.field] + " (" + p.Pos(b.st.Pos()) + "): the second object starts after the bytes just written, so the footer (and every page location rebased with it) points into the first"
						}
					})
				}
			}
			c.Check(rule, FuncKey(fn)+": offset reading #"+itoa(li)+" labels one object", ld.Pos(), okAll, detail)
		}
	}
	c.Stats[rule+".labelled_stores"] = nstores
	c.Min(rule, 4)
}
