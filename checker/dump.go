package main

import (
	"fmt"
	"strings"

	"golang.org/x/tools/go/ssa"
)

// exploratory dumps used while freezing rule tables (not registered in MANIFEST)
func init() {
	register(&Property{ID: "X-errs", NeedSSA: true, Decided: "dump", NotDecided: "-", Run: func(c *Ctx) {
		io := NewIOErrs(c.P)
		for _, fn := range c.P.ModuleSSAFuncs() {
			if fn.Origin() != nil {
				continue
			}
			for _, s := range ErrSites(fn) {
				mf := io.CallMayFail(s.Call)
				fmt.Printf("%-9s io=%-5v %s  @%s\n", s.Kind, mf, s.Key(), c.P.Pos(s.Call.Pos()))
			}
		}
	}})
	register(&Property{ID: "X-ssa", NeedSSA: true, Decided: "dump", NotDecided: "-", Run: func(c *Ctx) {
		for _, fn := range c.P.ModuleSSAFuncs() {
			if strings.Contains(FuncKey(fn), dumpFilter) {
				fn.WriteTo(os_Stdout)
			}
		}
	}})
}

var _ = ssa.NaiveForm

var dumpFilter = func() string { return osGetenv("PQ_DUMP") }()
