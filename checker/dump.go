package main

import (
	"go/types"
	"go/token"
	"sort"
	"fmt"
	"strings"

	"golang.org/x/tools/go/ssa"
)

// exploratory dumps used while freezing rule tables (not registered in MANIFEST)
func init() {
	register(&Property{ID: "X-errs", NeedSSA: true, Decided: "dump", NotDecided: "-", Run: func(c *Ctx) {
		io := NewIOErrs(c.P)
		for _, fn := range c.P.ModuleSSAFuncs() {
			if fn.Origin() != nil {
				continue
			}
			for _, s := range ErrSites(fn) {
				mf := io.CallMayFail(s.Call)
				fmt.Printf("%-9s io=%-5v %s  @%s\n", s.Kind, mf, s.Key(), c.P.Pos(s.Call.Pos()))
			}
		}
	}})
	register(&Property{ID: "X-ssa", NeedSSA: true, Decided: "dump", NotDecided: "-", Run: func(c *Ctx) {
		for _, fn := range c.P.ModuleSSAFuncs() {
			if strings.Contains(FuncKey(fn), dumpFilter) {
				fn.WriteTo(os_Stdout)
			}
		}
	}})
}

var _ = ssa.NaiveForm

var dumpFilter = func() string { return osGetenv("PQ_DUMP") }()

func init() {
	register(&Property{ID: "X-resets", NeedSSA: true, Decided: "dump", NotDecided: "-", Run: func(c *Ctx) {
		p := c.P
		eff := NewEffects(p)
		for _, pkg := range p.Mod {
			scope := pkg.Types.Scope()
			for _, n := range scope.Names() {
				tn, ok := scope.Lookup(n).(*types.TypeName)
				if !ok {
					continue
				}
				named, ok := tn.Type().(*types.Named)
				if !ok {
					continue
				}
				if _, ok := named.Underlying().(*types.Struct); !ok {
					continue
				}
				var resets, ops []*ssa.Function
				for _, m := range p.methodsOf(named) {
					switch m.Name() {
					case "Reset", "reset":
						resets = append(resets, m)
					default:
						ops = append(ops, m)
					}
				}
				if len(resets) == 0 {
					continue
				}
				own := fieldsOfStruct(named)
				wr := eff.Writes(p.withInstances(resets), TransOpts{})
				wo := eff.Writes(p.withInstances(ops), TransOpts{Stop: func(f *ssa.Function) bool { return fnName(f) == "Reset" || fnName(f) == "reset" }})
				var missing []string
				for f, s := range wo {
					if own[f] {
						if _, ok := wr[f]; !ok {
							missing = append(missing, f.Name()+"@"+FuncKey(s.Fn))
						}
					}
				}
				sort.Strings(missing)
				fmt.Printf("%s%s: reset-missing=%v\n", shortPkg(pkg.PkgPath), tn.Name(), missing)
			}
		}
	}})
}

func init() {
	register(&Property{ID: "X-reset2", NeedSSA: true, Decided: "dump", NotDecided: "-", Run: func(c *Ctx) {
		ci := newChainIndex(c.P)
		runResetRule(c, "X", ci, resetSpec{Type: "ColumnWriter", Reset: []string{"(*writer).reset"}, Constructors: []string{"newConcurrentRowGroupWriter", "newWriter"}})
		runResetRule(c, "X", ci, resetSpec{Type: "ConcurrentRowGroupWriter", Reset: []string{"(*writer).reset"}, Constructors: []string{"newConcurrentRowGroupWriter", "newWriter"}})
		runResetRule(c, "X", ci, resetSpec{Type: "writer", Reset: []string{"(*writer).reset"}, Constructors: []string{"newConcurrentRowGroupWriter", "newWriter"}})
		for _, pkg := range c.P.Mod {
			scope := pkg.Types.Scope()
			for _, n := range scope.Names() {
				tn, ok := scope.Lookup(n).(*types.TypeName)
				if !ok {
					continue
				}
				named, ok := tn.Type().(*types.Named)
				if !ok {
					continue
				}
				if _, ok := named.Underlying().(*types.Struct); !ok {
					continue
				}
				for _, m := range c.P.methodsOf(named) {
					if m.Name() == "Reset" || m.Name() == "reset" {
						key := shortPkg(pkg.PkgPath) + tn.Name()
						runResetRule(c, "Y", ci, resetSpec{Type: key, Reset: []string{FuncKey(m)}})
					}
				}
			}
		}
	}})
}

func init() {
	register(&Property{ID: "X-own", NeedSSA: true, Decided: "dump", NotDecided: "-", Run: func(c *Ctx) {
		runOwnRule(c, "X.own", ownSpec{Owner: "writer", Reset: "(*writer).reset", Exempt: map[string]string{"writer.columnIndexes.MinValues": "x", "writer.columnIndexes.MaxValues": "x"}})
	}})
}

func init() {
	register(&Property{ID: "X-maps", NeedSSA: true, Decided: "dump", NotDecided: "-", Run: func(c *Ctx) {
		for _, fn := range c.P.ModuleSSAFuncs() {
			if fn.Origin() != nil {
				continue
			}
			allInstrs(fn, false, func(_ *ssa.Function, ins ssa.Instruction) {
				if r, ok := ins.(*ssa.Range); ok {
					if _, isMap := r.X.Type().Underlying().(*types.Map); isMap {
						fmt.Printf("maprange %s @%s\n", FuncKey(fn), c.P.Pos(r.Pos()))
					}
				}
			})
		}
	}})
}

func init() {
	register(&Property{ID: "X-pathcons", NeedSSA: true, Decided: "dump", NotDecided: "-", Run: func(c *Ctx) {
		pc := newPathCons(c.P)
		for _, fn := range c.P.ModuleSSAFuncs() {
			if fn.Origin() != nil || fn.Parent() != nil {
				continue
			}
			mode := ""
			switch fn.Name() {
			case "SeekToRow", "Seek", "Reset":
				mode = "nilerr"
			case "ReadPage", "ReadRows", "ReadValues", "Read", "ReadRow", "WriteRows", "WriteValues", "Write":
				mode = "value"
			}
			if mode == "" {
				continue
			}
			for _, r := range pc.Analyse(fn, mode) {
				fmt.Printf("%-5v %s . %s (success returns %d) bad=%s\n", r.OK, FuncKey(fn), r.Field.Name(), r.NSuccess, c.P.Pos(r.BadReturn))
			}
		}
	}})
}

func init() {
	register(&Property{ID: "X-prefix", NeedSSA: true, Decided: "dump", NotDecided: "-", Run: func(c *Ctx) {
		runPrefixRule(c, "X.prefix", map[string]bool{"ReadRows": true, "ReadValues": true, "Read": true, "ReadAt": true, "WriteRows": true, "WriteValues": true, "Write": true, "ReadRow": true, "ReadValuesAt": true})
	}})
}

func init() {
	register(&Property{ID: "X-config", NeedSSA: false, Decided: "dump", NotDecided: "-", Run: func(c *Ctx) {
		runConfigMergeRule(c, "X.config", nil)
	}})
}

func init() {
	register(&Property{ID: "X-globals", NeedSSA: true, Decided: "dump", NotDecided: "-", Run: func(c *Ctx) {
		for _, fn := range c.P.ModuleSSAFuncs() {
			if fn.Origin() != nil {
				continue
			}
			bk := baseFuncKey(fn)
			if strings.HasSuffix(bk, "init") || strings.Contains(bk, "init#") {
				continue
			}
			allInstrs(fn, false, func(_ *ssa.Function, ins ssa.Instruction) {
				var addr ssa.Value
				switch x := ins.(type) {
				case *ssa.Store:
					addr = x.Addr
				case *ssa.MapUpdate:
					addr = x.Map
				}
				if addr == nil {
					return
				}
				_, root, _ := fieldChain(addr)
				var g *ssa.Global
				switch r := root.(type) {
				case *ssa.Global:
					g = r
				case *ssa.UnOp:
					g, _ = r.X.(*ssa.Global)
				}
				if g != nil && g.Pkg != nil && strings.HasPrefix(g.Pkg.Pkg.Path(), modPath) {
					fmt.Printf("globalwrite %s.%s in %s @%s\n", shortPkg(g.Pkg.Pkg.Path()), g.Name(), FuncKey(fn), c.P.Pos(ins.Pos()))
				}
			})
		}
	}})
}

func init() {
	register(&Property{ID: "X-namewire", NeedSSA: true, Decided: "dump", NotDecided: "-", Run: func(c *Ctx) {
		fs, n := nameWireFindings(c.P)
		fmt.Println("sites", n)
		for _, f := range fs {
			fmt.Printf("namewire %s: %s passes field %s as parameter %s @%s\n", FuncKey(f.Fn), calleeName(f.Call), f.Field, f.Param, c.P.Pos(f.Call.Pos()))
		}
	}})
}

func init() {
	register(&Property{ID: "X-dst", NeedSSA: true, Decided: "dump", NotDecided: "-", Run: func(c *Ctx) {
		runDstRule(c, "X.dst", []string{"/encoding", "/compress"}, nil)
	}})
}

func init() {
	register(&Property{ID: "X-generic", NeedSSA: true, Decided: "dump", NotDecided: "-", Run: func(c *Ctx) {
		literalSiblingRule(c, "X.lit", 1)
		polarityRule(c, "X.pol", "Equal", "Same")
		typePairRule(c, "X.typepair")
		enumRule(c, "X.kinds", "Kind", []string{"(Kind).Value", "canEncode", "(Value).hash"})
	}})
}

func init() {
	register(&Property{ID: "X-nilret", NeedSSA: true, Decided: "dump", NotDecided: "-", Run: func(c *Ctx) {
		for _, fn := range c.P.ModuleSSAFuncs() {
			if fn.Origin() != nil {
				continue
			}
			for _, s := range NilReturnSites(fn) {
				fmt.Printf("nilreturn %s @%s failed=%s\n", FuncKey(fn), c.P.Pos(s.Ret.Pos()), s.Failed.Name())
			}
		}
	}})
}

func init() {
	register(&Property{ID: "X-reentrant", NeedSSA: true, Decided: "dump", NotDecided: "-", Run: func(c *Ctx) {
		runReentrantRule(c, "X.reentrant", func(fn *ssa.Function) bool { return inModule(fn) }, nil, 1)
	}})
}

func init() {
	register(&Property{ID: "X-appendalias", NeedSSA: true, Decided: "dump", NotDecided: "-", Run: func(c *Ctx) {
		runAppendAliasRule(c, "X.appendalias", func(fn *ssa.Function) bool { return inModule(fn) }, 1)
	}})
}

func init() {
	register(&Property{ID: "X-result", NeedSSA: true, Decided: "dump", NotDecided: "-", Run: func(c *Ctx) {
		runCodecResultRule(c, "X.result", 1)
	}})
}

func init() {
	register(&Property{ID: "X-wrapper", NeedSSA: true, Decided: "dump", NotDecided: "-", Run: func(c *Ctx) {
		wrapperPreservedRule(c, "X.wrapper", "Page", "Slice", 1)
	}})
}

func init() {
	register(&Property{ID: "X-closed", NeedSSA: true, Decided: "dump", NotDecided: "-", Run: func(c *Ctx) {
		runClosedFieldRule(c, "X.closed", nil, 1)
	}})
}

func init() {
	register(&Property{ID: "X-readreset", NeedSSA: true, Decided: "dump", NotDecided: "-", Run: func(c *Ctx) {
		ci := newChainIndex(c.P)
		for _, s := range []resetSpec{
			{Type: "rowGroupRows", Reset: []string{"(*rowGroupRows).Reset"}},
			{Type: "columnChunkValueReader", Reset: []string{"(*columnChunkValueReader).Reset"}},
			{Type: "reader", Reset: []string{"(*reader).Reset"}},
			{Type: "Reader", Reset: []string{"(*Reader).Reset"}},
			{Type: "GenericReader", Reset: []string{"(*GenericReader).Reset"}},
			{Type: "RowBuilder", Reset: []string{"(*RowBuilder).Reset"}},
		} {
			runResetRule(c, "X.readreset", ci, s)
		}
	}})
}

func init() {
	register(&Property{ID: "X-destreads", NeedSSA: true, Decided: "dump", NotDecided: "-", Run: func(c *Ctx) {
		p := c.P
		for _, fn := range p.ModuleSSAFuncs() {
			if fn.Origin() != nil || fn.Blocks == nil || len(fn.Params) == 0 {
				continue
			}
			root := fn
			for root.Parent() != nil {
				root = root.Parent()
			}
			if !strings.HasPrefix(root.Name(), "reconstructFuncOf") && !strings.HasPrefix(root.Name(), "reconstruct") {
				continue
			}
			for _, par := range fn.Params {
				if !isReflectValue(par.Type()) {
					continue
				}
				m := map[string]bool{}
				for _, a := range destAliases(par) {
					for _, r := range *a.Referrers() {
						if call, ok := r.(ssa.CallInstruction); ok {
							if callee := call.Common().StaticCallee(); callee != nil && len(call.Common().Args) > 0 && call.Common().Args[0] == a && callee.Signature.Recv() != nil {
								m[fnName(callee)] = true
							}
						}
					}
				}
				var ks []string
				for k := range m {
					ks = append(ks, k)
				}
				sort.Strings(ks)
				c.Note("%s(%s): %s", FuncKey(fn), par.Name(), strings.Join(ks, ","))
				fmt.Println(FuncKey(fn), par.Name(), strings.Join(ks, ","))
			}
		}
	}})
}

func destAliases(par *ssa.Parameter) []ssa.Value {
	out := []ssa.Value{par}
	if refs := par.Referrers(); refs != nil {
		for _, r := range *refs {
			if st, ok := r.(*ssa.Store); ok && st.Val == par {
				if al, ok := st.Addr.(*ssa.Alloc); ok {
					for _, lr := range *al.Referrers() {
						if u, ok := lr.(*ssa.UnOp); ok && u.Op == token.MUL {
							out = append(out, u)
						}
					}
				}
			}
		}
	}
	return out
}

func init() {
	register(&Property{ID: "X-retry", NeedSSA: true, Decided: "dump", NotDecided: "-", Run: func(c *Ctx) {
		runRetryRule(c, "X.retry", func(fn *ssa.Function) bool { return inModule(fn) }, 1)
	}})
}

func init() {
	register(&Property{ID: "X-loopcond", NeedSSA: true, Decided: "dump", NotDecided: "-", Run: func(c *Ctx) {
		runLoopCondRule(c, "X.loopcond", func(fn *ssa.Function) bool { return inModule(fn) }, 1)
	}})
}

func init() {
	register(&Property{ID: "X-delegate", NeedSSA: true, Decided: "dump", NotDecided: "-", Run: func(c *Ctx) {
		delegateSiblingRule(c, "X.delegate", []string{"NewColumnIndexer", "NewColumnBuffer", "NewDictionary", "NewPage"}, 1)
	}})
}

func init() {
	register(&Property{ID: "X-accum", NeedSSA: true, Decided: "dump", NotDecided: "-", Run: func(c *Ctx) {
		p := c.P
		for _, fn := range p.ModuleSSAFuncs() {
			if fn.Origin() != nil || fn.Blocks == nil {
				continue
			}
			top := fn
			for top.Parent() != nil {
				top = top.Parent()
			}
			allCalls(fn, false, func(_ *ssa.Function, call ssa.CallInstruction) {
				sc := call.Common().StaticCallee()
				if sc == nil || originFn(sc) != originFn(top) {
					return
				}
				for i, a := range call.Common().Args {
					if i >= len(top.Params) {
						break
					}
					par := top.Params[i]
					self, derived := false, false
					for _, o := range Origins(a, OriginOpts{ThroughBinOp: true, ThroughField: true}) {
						if (o.Kind == OrgParam && o.Val == ssa.Value(par)) || (o.Kind == OrgFreeVar && o.Val.Name() == par.Name()) {
							derived = true
						}
					}
					if a == ssa.Value(par) {
						self = true
					}
					if fv, ok := a.(*ssa.FreeVar); ok && fv.Name() == par.Name() {
						self = true
					}
					kind := "unrelated"
					if self {
						kind = "same"
					} else if derived {
						kind = "derived"
					}
					c.Note("%s param %s (%s): %s at %s", FuncKey(top), par.Name(), par.Type(), kind, p.Pos(call.Pos()))
				}
			})
		}
	}})
}

func init() {
	register(&Property{ID: "X-accumrule", NeedSSA: true, Decided: "dump", NotDecided: "-", Run: func(c *Ctx) {
		runAccumRule(c, "X.accum", func(fn *ssa.Function) bool { return inModule(fn) })
	}})
}

func init() {
	register(&Property{ID: "X-condadvance", NeedSSA: true, Decided: "dump", NotDecided: "-", Run: func(c *Ctx) {
		p := c.P
		for _, fn := range p.ModuleSSAFuncs() {
			if fn.Origin() != nil || fn.Blocks == nil || fnPkgPath(fn) != modPath {
				continue
			}
			for _, b := range fn.Blocks {
				for _, ins := range b.Instrs {
					phi, ok := ins.(*ssa.Phi)
					if !ok || !isNumericBasic(phi.Type()) {
						continue
					}
					// loop header phi: some edge comes from a block the header dominates
					for i, e := range phi.Edges {
						if !b.Dominates(b.Preds[i]) {
							continue
						}
						// back-edge value: unchanged on some path?
						unchanged := false
						updated := false
						var walk func(v ssa.Value, seen map[ssa.Value]bool)
						walk = func(v ssa.Value, seen map[ssa.Value]bool) {
							if seen[v] {
								return
							}
							seen[v] = true
							if v == ssa.Value(phi) {
								unchanged = true
								return
							}
							if ph, ok := v.(*ssa.Phi); ok && ph.Block() != b {
								for _, e2 := range ph.Edges {
									walk(e2, seen)
								}
								return
							}
							if bo, ok := v.(*ssa.BinOp); ok && derivesFromValue(bo, phi, map[ssa.Value]bool{}) {
								// adds a call result?
								for _, side := range []ssa.Value{bo.X, bo.Y} {
									for _, o := range Origins(side, OriginOpts{}) {
										if o.Kind == OrgCall {
											updated = true
										}
									}
								}
							}
						}
						walk(e, map[ssa.Value]bool{})
						if unchanged && updated {
							c.Note("%s: %s at %s conditionally advanced", FuncKey(fn), phi.Comment, p.Pos(phi.Pos()))
						}
					}
				}
			}
		}
	}})
}

func init() {
	register(&Property{ID: "X-freshelem", NeedSSA: true, Decided: "dump", NotDecided: "-", Run: func(c *Ctx) {
		p := c.P
		for _, fn := range p.ModuleSSAFuncs() {
			if fn.Origin() != nil || fn.Blocks == nil {
				continue
			}
			rs, _ := recycledElements(fn)
			for _, r := range rs {
				c.Fail("X", FuncKey(fn)+" "+r.How, r.Pos, "into %s", r.Into.String())
			}
		}
	}})
}
