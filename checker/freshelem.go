package main

import (
	"go/token"
	"go/types"

	"golang.org/x/tools/go/ssa"
)

// T-FRESHELEM: the byte strings held in a [][]byte that a producer hands out
// (the bounds of a column index) are replaced, never rewritten: a value stored
// as an element is not built on the storage of an element already there
// (`x[i] = append(x[i][:0], …)`), and nothing copies into an element.

func isBytesOfBytes(t types.Type) bool {
	var el types.Type
	switch u := t.Underlying().(type) {
	case *types.Slice:
		el = u.Elem()
	case *types.Array:
		el = u.Elem()
	case *types.Pointer:
		if a, ok := u.Elem().Underlying().(*types.Array); ok {
			el = a.Elem()
		}
	}
	if el == nil {
		return false
	}
	s, ok := el.Underlying().(*types.Slice)
	if !ok {
		return false
	}
	b, ok := s.Elem().Underlying().(*types.Basic)
	return ok && b.Kind() == types.Uint8
}

// elementLoadBehind: v is built on the storage of an element loaded from a
// [][]byte (through re-slicing, appends that may stay in place, and phis);
// returns the IndexAddr of that element.
func elementLoadBehind(v ssa.Value, seen map[ssa.Value]bool) *ssa.IndexAddr {
	if v == nil || seen[v] || len(seen) > 64 {
		return nil
	}
	seen[v] = true
	switch x := v.(type) {
	case *ssa.UnOp:
		if x.Op == token.MUL {
			if ia, ok := x.X.(*ssa.IndexAddr); ok && isBytesOfBytes(ia.X.Type()) {
				return ia
			}
		}
	case *ssa.Slice:
		return elementLoadBehind(x.X, seen)
	case *ssa.Phi:
		for _, e := range x.Edges {
			if ia := elementLoadBehind(e, seen); ia != nil {
				return ia
			}
		}
	case *ssa.Call:
		if bi, ok := x.Call.Value.(*ssa.Builtin); ok && bi.Name() == "append" {
			return elementLoadBehind(x.Call.Args[0], seen)
		}
	}
	return nil
}

// appendedInPlace: v is the result of an append (possibly re-sliced or merged
// by a phi) — the only way a stored value can have written bytes.
func appendedInPlace(v ssa.Value, seen map[ssa.Value]bool) bool {
	if v == nil || seen[v] || len(seen) > 64 {
		return false
	}
	seen[v] = true
	switch x := v.(type) {
	case *ssa.Slice:
		return appendedInPlace(x.X, seen)
	case *ssa.Phi:
		for _, e := range x.Edges {
			if appendedInPlace(e, seen) {
				return true
			}
		}
	case *ssa.Call:
		if bi, ok := x.Call.Value.(*ssa.Builtin); ok && bi.Name() == "append" {
			return true
		}
	}
	return false
}

type recycledElem struct {
	Fn   *ssa.Function
	Pos  token.Pos
	Into ssa.Value // the [][]byte whose element is rewritten
	How  string
}

func recycledElements(fn *ssa.Function) (out []recycledElem, stores int) {
	allInstrs(fn, false, func(_ *ssa.Function, ins ssa.Instruction) {
		switch x := ins.(type) {
		case *ssa.Store:
			ia, ok := x.Addr.(*ssa.IndexAddr)
			if !ok || !isBytesOfBytes(ia.X.Type()) {
				return
			}
			stores++
			if src := elementLoadBehind(x.Val, map[ssa.Value]bool{}); src != nil && appendedInPlace(x.Val, map[ssa.Value]bool{}) {
				out = append(out, recycledElem{Fn: fn, Pos: x.Pos(), Into: src.X, How: "stores an element built on the storage of an element already there"})
			}
		case ssa.CallInstruction:
			cc := x.Common()
			if bi, ok := cc.Value.(*ssa.Builtin); ok && bi.Name() == "copy" && len(cc.Args) > 0 {
				if src := elementLoadBehind(cc.Args[0], map[ssa.Value]bool{}); src != nil {
					out = append(out, recycledElem{Fn: fn, Pos: x.Pos(), Into: src.X, How: "copies into an element"})
				}
			}
		}
	})
	return out, stores
}

func runFreshElemRule(c *Ctx, rule string, scope func(fn *ssa.Function) bool, min int) {
	p := c.P
	total := 0
	for _, fn := range p.ModuleSSAFuncs() {
		if fn.Origin() != nil || fn.Blocks == nil || !scope(fn) {
			continue
		}
		bad, stores := recycledElements(fn)
		if stores == 0 && len(bad) == 0 {
			continue
		}
		total += stores
		msg := ""
		pos := fn.Pos()
		for _, b := range bad {
			msg += b.How + " (" + p.Pos(b.Pos) + "); "
			pos = b.Pos
		}
		c.Check(rule, FuncKey(fn)+": byte strings held in a [][]byte are replaced, not rewritten", pos, len(bad) == 0,
			FuncKey(fn)+" "+msg+"the byte strings of a list of bounds are shared with every column index handed out earlier (ColumnIndex() clones the list, not the strings; the writer keeps the indexes of all row groups until the footer): rewriting one in place changes min/max values already recorded for an earlier page or row group")
	}
	c.Stats[rule+".element_stores"] = total
	c.Min(rule, min)
}
