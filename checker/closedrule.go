package main

import (
	"go/token"
	"go/types"
	"sort"
	"strings"

	"golang.org/x/tools/go/ssa"
)

// T-CLOSED: a method that closes the object held in one of the receiver's
// fields while the receiver itself stays in use (the method is not the
// receiver's own Close) must replace the field on every path to its exit:
// the other methods test the field against nil to decide whether to open a
// new one, and would go on reading from the closed object.

func runClosedFieldRule(c *Ctx, rule string, exempt map[string]string, min int) {
	p := c.P
	n := 0
	for _, fn := range p.ModuleSSAFuncs() {
		if fn.Origin() != nil || fn.Blocks == nil || fn.Signature.Recv() == nil || fn.Parent() != nil {
			continue
		}
		name := fn.Name()
		if name == "Close" || name == "close" || strings.HasPrefix(name, "Close") || name == "Release" || name == "release" {
			continue
		}
		recv := fn.Params[0]
		k := 0
		allCalls(fn, false, func(_ *ssa.Function, call ssa.CallInstruction) {
			if _, isDefer := call.(*ssa.Defer); isDefer {
				return
			}
			cc := call.Common()
			var target ssa.Value
			mname := ""
			if cc.IsInvoke() {
				target, mname = cc.Value, cc.Method.Name()
			} else if callee := cc.StaticCallee(); callee != nil && callee.Signature.Recv() != nil && len(cc.Args) > 0 {
				target, mname = cc.Args[0], fnName(callee)
			}
			if mname != "Close" || target == nil {
				return
			}
			fs, root, elem := fieldChain(target)
			if len(fs) != 1 || elem || root != ssa.Value(recv) {
				return
			}
			f := fs[0]
			switch f.Type().Underlying().(type) {
			case *types.Interface, *types.Pointer:
			default:
				return // a value field cannot be tested against nil
			}
			n++
			key := FuncKey(fn) + ": " + p.FieldName(f) + " replaced after Close"
			if k > 0 {
				key += " #" + itoa(k)
			}
			k++
			if r, ok := exempt[FuncKey(fn)+" "+f.Name()]; ok {
				c.Pass(rule, key, call.Pos(), "exempt: %s", r)
				return
			}
			// blocks storing the field
			stores := map[*ssa.BasicBlock]bool{}
			sameBlockAfter := false
			allInstrs(fn, false, func(_ *ssa.Function, ins ssa.Instruction) {
				st, ok := ins.(*ssa.Store)
				if !ok {
					return
				}
				fs2, root2, el2 := fieldChain(st.Addr)
				if len(fs2) == 1 && !el2 && fs2[0] == f && root2 == ssa.Value(recv) {
					if st.Block() == call.Block() {
						after := false
						for _, x := range st.Block().Instrs {
							if x == call.(ssa.Instruction) {
								after = true
							}
							if x == ssa.Instruction(st) && after {
								sameBlockAfter = true
							}
						}
					} else {
						stores[st.Block()] = true
					}
				}
			})
			ok := sameBlockAfter
			if !ok {
				ok = true
				reach := reachableAvoidingSet(call.Block(), stores, errFailureEdges(call))
				for _, ret := range returnsOf(fn) {
					if reach[ret.Block()] && !stores[ret.Block()] {
						ok = false
					}
				}
			}
			c.Check(rule, key, call.Pos(), ok, FuncKey(fn)+" closes "+p.FieldName(f)+" and can return without replacing it: the receiver stays in use and its other methods go on with the closed object (reads return nothing, or fail with a use-after-close error)")
		})
	}
	c.Stats[rule+".close_sites"] = n
	_ = sort.Strings
	c.Min(rule, min)
}

// errFailureEdges: the CFG edges on which the error returned by the call is
// known to be non-nil (true edge of `err != nil`, false edge of `err == nil`),
// looking through a spill of the error into a local.
func errFailureEdges(call ssa.CallInstruction) map[[2]*ssa.BasicBlock]bool {
	out := map[[2]*ssa.BasicBlock]bool{}
	v := call.Value()
	if v == nil || v.Referrers() == nil {
		return out
	}
	errVals := map[ssa.Value]bool{}
	if isErrorType(v.Type()) {
		errVals[v] = true
	}
	for _, r := range *v.Referrers() {
		if ex, ok := r.(*ssa.Extract); ok && isErrorType(ex.Type()) {
			errVals[ex] = true
		}
	}
	for ev := range errVals {
		if ev.Referrers() == nil {
			continue
		}
		for _, er := range *ev.Referrers() {
			if st, ok := er.(*ssa.Store); ok && st.Val == ev {
				if al, ok := st.Addr.(*ssa.Alloc); ok {
					for _, lr := range *al.Referrers() {
						if u, ok := lr.(*ssa.UnOp); ok && u.Op == token.MUL {
							errVals[u] = true
						}
					}
				}
			}
		}
	}
	for ev := range errVals {
		if ev.Referrers() == nil {
			continue
		}
		for _, er := range *ev.Referrers() {
			b, ok := er.(*ssa.BinOp)
			if !ok || !(isNilConst(b.X) || isNilConst(b.Y)) {
				continue
			}
			for _, br := range *b.Referrers() {
				if ifi, ok := br.(*ssa.If); ok {
					blk := ifi.Block()
					if b.Op == token.NEQ {
						out[[2]*ssa.BasicBlock{blk, blk.Succs[0]}] = true
					} else if b.Op == token.EQL {
						out[[2]*ssa.BasicBlock{blk, blk.Succs[1]}] = true
					}
				}
			}
		}
	}
	return out
}
