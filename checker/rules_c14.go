package main

import (
	"go/token"
	"go/types"
	"sort"
	"strings"

	"golang.org/x/tools/go/ssa"
)

// C14 — I/O failures and truncated files are always reported.

func init() {
	register(&Property{
		ID:         "C14",
		NeedSSA:    true,
		Decided:    "Structural necessary conditions: (errflow) in every function of the library's import closure, the error result of every call that can carry a failure of the I/O medium (io/bufio/os interface methods and functions, and module functions that transitively contain such calls) is used: it is not discarded, not bound to `_`, not merely compared and then forgotten, and not overwritten on a loop path before being looked at; the accepted exceptions are frozen with one reason each; (close) (*writer).close performs header, flush, deferred bloom filters, footer and buffer flush in that order and returns the result of the last; (short) writePageTo compares the bytes written with the expected size and reports io.ErrShortWrite; the offset-tracking sink wrapper returns its callee's (n, err) unchanged and adds n to the offset on every path; (readat) the ReadAt helper clears an error only when the buffer was filled. (chunkeof) every stream-read error FilePages.ReadPage returns went through a function that compares the position with the size of the chunk section or turns io.EOF into io.ErrUnexpectedEOF, and such a function does not return the error it was handed — bare or wrapped with %w — on the edge where it found the chunk short; (copylen) the byte count of a copy from an io.NewSectionReader is used. (rollback) a function that appends, to a list of the writer, entries carrying the index len(writer.rowGroups) of the row group it is about to record, and that can return an error, truncates that list back to a length measured before its first append (in its body or a deferred closure). (freshcompare) no value whose every origin is fmt.Errorf / errors.New is compared with a package-level error by == or !=. (eofcount) where the io.EOF of a Read / ReadAt / io.ReadFull is tolerated (its edge reaches a return without error) the byte count of that call is used.",
		NotDecided: "that each byte offset is actually reached; behaviour of foreign io.Writer/io.ReaderAt implementations; whether an error value that is used is also acted upon correctly (a condition inverted, a wrong variable of the same type returned from a used value).",
		Assumptions: []string{
			"an SSA error value with no referrers is a dropped error; go/ssa removes dead stores, so an assignment that is overwritten before any read also has no referrers",
			"a call `may fail` is over-approximated through interface method names (Read, Write, ReadAt, Seek, Close, Flush, …) and the static call graph",
		},
		Run: runC14,
	})
}

var c14Exceptions = []errException{
	{"(*ColumnWriter).writeDataPage", "(io.Writer).Write", "dropped", "first of two writes of an encrypted page into the page buffer: the byte counts of both are summed and writePageTo compares the total with the expected size (checked by C14.short)"},
	{"(*FilePages).ReadPage", "bufio.(*Reader).Discard", "dropped", "skipping a duplicate dictionary page: a short discard leaves the stream misaligned and resurfaces as a header decode error or EOF on the next iteration"},
	{"(*columnChunkValueReader).Reset", "(Pages).SeekToRow", "dropped", "documented best effort: Reset has no error result; a persisting error resurfaces on the next read"},
	{"(*seekRowGroup).Rows", "*", "dropped", "seekRowGroup is never constructed (dead code; checked by C08.errors)"},
	{"(*seekColumnChunk).Pages", "*", "dropped", "seekColumnChunk is never constructed (dead code; checked by C08.errors)"},
	{"OpenFile", "io.(*SectionReader).Seek*", "dropped", "SectionReader.Seek with SeekStart/SeekCurrent and an in-range offset cannot fail"},
	{"(*FileColumnChunk).readBloomFilter", "io.(*SectionReader).Seek", "dropped", "Seek(0, SeekCurrent) only reports the position"},
	{"(*File).ReadPageIndex", "(*File).ReadPageIndex$1", "dropped", "the callback passed to the local iterator only sums lengths and always returns nil"},
	{"splitByteArrays", "encoding/plain.RangeByteArray*", "dropped", "the callbacks never return an error; the input was produced by the indexer itself"},
	{"(*fileBufferPool).PutBuffer", "*", "dropped", "cleanup of a temporary spill file after its content was consumed"},
	{"(*rangeColumnChunk).Pages", "(Pages).Close", "dropped", "closing the cursor on the error path; the seek error is what is reported"},
	{"(*reader).Reset", "(Rows).Close", "dropped", "Reset has no error result; read-side cursor"},
	{"(*reader).init", "(Rows).Close", "dropped", "init has no error result; the rows of the row group that is being replaced are discarded unread (fix of F60), read-side cursor"},
	{"Read", "(*GenericReader).Close", "dropped", "read-side close after all rows were read; the read error, if any, is what is returned"},
	{"newRowGroupRows", "(*rowGroupRows).Close", "dropped", "finalizer: no caller to report to"},
	{"AsyncPages", "(*asyncPages).Close", "dropped", "finalizer: no caller to report to"},
	{"(Value).Format", "*", "dropped", "fmt.Formatter: fmt collects write errors of the State itself"},
	{"(Value).formatGoString", "*", "dropped", "fmt.Formatter helper"},
	{"(*Buffer).WriteRowGroup", "(Rows).Close", "deferred", "deferred close of the read-side cursor over the source row group"},
	{"(*Writer).WriteRowGroup", "(Rows).Close", "deferred", "deferred close of the read-side cursor over the source row group"},
	{"copyColumnValues", "(ColumnChunkValueReader).Close", "deferred", "deferred close of the read-side cursor over the source chunk"},
	{"ReadFile", "os.(*File).Close", "deferred", "read-only file"},
	{"(*SortingWriter).sortAndWriteBufferedRows", "(Rows).Close", "deferred", "deferred close of the read-side cursor over the sorted in-memory buffer"},
	{"WriteFile", "os.(*File).Close", "deferred", "close(2) of the destination after the writer's Close returned; its error is outside the io.Writer contract the property speaks about (documented limitation)"},
	{"(*decimalColumnBuffer).Less", "(ColumnBuffer).ReadValuesAt*", "dropped", "in-memory column buffer indexed by positions that sort.Interface guarantees to be in range; Less has no error result"},
	{"(*decimalPage).Bounds", "(ValueReader).ReadValues", "swallowed", "in-memory page values: the only error is io.EOF at the end of the page"},
	{"(*geospatialBBoxAccumulator).accumulatePage", "(ValueReader).ReadValues", "swallowed", "in-memory page values: io.EOF ends the loop; statistics only"},
	{"bloomFilterIsCopyable", "encoding/thrift.(*Decoder).Decode", "swallowed", "eligibility probe: on any error the chunk is simply not copied verbatim (the slow path re-encodes it)"},
	{"newBloomFilterFromBytes", "(compress.Codec).Decode", "swallowed", "a filter that cannot be decompressed is treated as absent (no filter means no skipping)"},
	{"newCutLookups", "(ColumnChunk).ColumnIndex", "swallowed", "optimisation probe: without a usable index the merge falls back to reading rows"},
	{"newCutLookups", "(ColumnChunk).OffsetIndex", "swallowed", "optimisation probe: without a usable index the merge falls back to reading rows"},
	{"rowGroupRangeOfSortedColumns", "(ColumnChunk).ColumnIndex", "swallowed", "optimisation probe: without a usable index the row groups are treated as overlapping"},
	{"overlappingRowGroups", "rowGroupRangeOfSortedColumns", "swallowed", "optimisation probe: failure means the row groups are treated as overlapping"},
	{"compress.(*Decompressor).Decode", "(compress.Reader).Reset", "swallowed", "a pooled reader whose Reset(nil) fails is dropped instead of being put back (C20.pool)"},
	{"(*readerFileView).RowGroups", "makeFileRowGroups", "swallowed", "view over metadata that was already validated when the file was opened"},
	{"(*writerFileView).RowGroups", "makeFileRowGroups", "swallowed", "view over metadata the writer produced itself"},
	{"(*readerFileView).Root", "openColumns", "dropped", "view over metadata that was already validated when the file was opened"},
	{"(*writerFileView).Root", "openColumns", "dropped", "view over metadata the writer produced itself"},
}

func runC14(c *Ctx) {
	c14ChunkEOF(c)
	c14CopyLen(c)
	runRollbackRule(c, "C14.rollback", "writer", "rowGroups", 1)
	c14FreshCompare(c)
	c14EOFCount(c)
	p := c.P
	io := NewIOErrs(p)
	inScope := rootImportClosure(p)
	skipFiles := map[string]string{"print.go": "printing utilities use a sticky-error printWriter"}
	runErrRule(c, "C14.errflow",
		func(fn *ssa.Function) bool {
			pk := fnPkg(fn)
			if pk == nil || !inScope[pk.Path()] {
				return false
			}
			if strings.HasPrefix(pk.Path(), modPath+"/internal/debug") {
				return false
			}
			if _, skip := skipFiles[p.File(fn.Pos())]; skip {
				return false
			}
			return true
		},
		func(s ErrSite) bool { return io.CallMayFail(s.Call) },
		c14Exceptions)
	c.Min("C14.errflow", 25)

	c14Close(c)
	c14Short(c)
	c14ReadAt(c)
}

func rootImportClosure(p *Prog) map[string]bool {
	inScope := map[string]bool{}
	var visit func(path string)
	visit = func(path string) {
		if inScope[path] {
			return
		}
		inScope[path] = true
		if pkg := p.ByPath[path]; pkg != nil {
			for ip := range pkg.Imports {
				if ip == modPath || strings.HasPrefix(ip, modPath+"/") {
					visit(ip)
				}
			}
		}
	}
	visit(modPath)
	return inScope
}

// c14Close: order of the final steps and propagation of the last error.
func c14Close(c *Ctx) {
	p := c.P
	rule := "C14.close"
	obj := p.LookupFunc("(*writer).close")
	if !c.Anchor(rule, "(*writer).close", obj != nil) {
		return
	}
	fn := p.SSAFunc(obj)
	steps := []string{"(*writer).writeFileHeader", "(*writer).flush", "(*writer).writeDeferredBloomFilters", "(*writer).writeFileFooter", "bufio.(*Writer).Flush"}
	calls := map[string]ssa.CallInstruction{}
	allCalls(fn, false, func(_ *ssa.Function, call ssa.CallInstruction) {
		calls[calleeName(call)] = call
	})
	for i, s := range steps {
		call, ok := calls[s]
		c.Check(rule, "close calls "+s, fn.Pos(), ok, "(*writer).close no longer calls "+s)
		if !ok || i == 0 {
			continue
		}
		prev, okp := calls[steps[i-1]]
		if !okp {
			continue
		}
		c.Check(rule, "close: "+steps[i-1]+" precedes "+s, call.Pos(), dominates(prev.(ssa.Instruction), call.(ssa.Instruction)), s+" can run without "+steps[i-1]+" having completed")
		// the next step runs only when the previous one returned nil: the
		// previous call's error controls a branch whose nil edge dominates
		if pv, isCall := prev.(*ssa.Call); isCall {
			guarded := false
			for _, r := range realReferrers(pv) {
				if b, ok := r.(*ssa.BinOp); ok && (b.Op == token.NEQ || b.Op == token.EQL) {
					for _, ifr := range realReferrers(b) {
						if ifi, ok := ifr.(*ssa.If); ok {
							nilEdge := ifi.Block().Succs[1]
							if b.Op == token.EQL {
								nilEdge = ifi.Block().Succs[0]
							}
							if nilEdge.Dominates(call.Block()) {
								guarded = true
							}
						}
					}
				}
			}
			c.Check(rule, "close: "+s+" only after "+steps[i-1]+" succeeded", call.Pos(), guarded, s+" is not guarded by the error of "+steps[i-1])
		}
	}
	// the buffer flush result is returned
	if fl, ok := calls["bufio.(*Writer).Flush"]; ok {
		returned := false
		for _, r := range returnsOf(fn) {
			v, _ := retResult(r, 0)
			for _, o := range Origins(v, OriginOpts{}) {
				if o.Kind == OrgCall && o.Call == fl {
					returned = true
				}
			}
		}
		c.Check(rule, "close returns the result of the final buffer flush", fl.Pos(), returned, "the error of bufio.Writer.Flush is not what close returns: bytes still in the write buffer can be lost with a nil error")
	}
	// public Close methods return what close returns
	for _, k := range []string{"(*Writer).Close", "(*GenericWriter).Close"} {
		o := p.LookupFunc(k)
		if !c.Anchor(rule, k, o != nil) {
			continue
		}
		f := p.SSAFunc(o)
		for _, inst := range append([]*ssa.Function{f}, p.Instances(f)...) {
			if inst.Blocks == nil {
				continue
			}
			ok := false
			reach := NewEffects(p).Closure([]*ssa.Function{inst}, TransOpts{})
			for g := range reach {
				if FuncKey(g) == "(*writer).close" {
					ok = true
				}
			}
			c.Check(rule, k+" reaches (*writer).close", inst.Pos(), ok, k+" no longer reaches (*writer).close through static calls")
			break
		}
	}
	c.Min(rule, 12)
}

func c14Short(c *Ctx) {
	p := c.P
	rule := "C14.short"
	if obj := p.LookupFunc("(*ColumnWriter).writePageTo"); c.Anchor(rule, "(*ColumnWriter).writePageTo", obj != nil) {
		fn := p.SSAFunc(obj)
		// a comparison written != size whose mismatch edge returns an error mentioning io.ErrShortWrite
		found := false
		for _, b := range fn.Blocks {
			for _, ins := range b.Instrs {
				bo, ok := ins.(*ssa.BinOp)
				if !ok || (bo.Op != token.NEQ && bo.Op != token.EQL) {
					continue
				}
				isParam := func(v ssa.Value) bool { _, ok := v.(*ssa.Parameter); return ok }
				isCallRes := func(v ssa.Value) bool {
					for _, o := range Origins(v, OriginOpts{}) {
						if o.Kind == OrgCall {
							return true
						}
					}
					return false
				}
				if !((isParam(bo.X) && isCallRes(bo.Y)) || (isParam(bo.Y) && isCallRes(bo.X))) {
					continue
				}
				for _, r := range realReferrers(bo) {
					ifi, ok := r.(*ssa.If)
					if !ok {
						continue
					}
					mis := ifi.Block().Succs[0]
					if bo.Op == token.EQL {
						mis = ifi.Block().Succs[1]
					}
					for blk := range reachableFrom(mis) {
						for _, i2 := range blk.Instrs {
							for _, op := range i2.Operands(nil) {
								if g, ok := (*op).(*ssa.Global); ok && g.Name() == "ErrShortWrite" {
									found = true
								}
							}
						}
					}
				}
			}
		}
		c.Check(rule, "writePageTo compares written with size", fn.Pos(), found, "writePageTo no longer compares the number of bytes written with the expected page size (reporting io.ErrShortWrite): a sink that accepts fewer bytes without an error goes unnoticed")
		// numPages is incremented only after the comparison succeeded: covered by C18.ordinals
	}
	// the sink wrapper returns (n, err) of the callee unchanged and counts n
	off := p.LookupField("offsetTrackingWriter", "offset")
	for _, k := range []string{"(*offsetTrackingWriter).Write", "(*offsetTrackingWriter).WriteString", "(*offsetTrackingWriter).ReadFrom"} {
		obj := p.LookupFunc(k)
		if !c.Anchor(rule, k, obj != nil) || off == nil {
			continue
		}
		fn := p.SSAFunc(obj)
		var inner *ssa.Call
		allCalls(fn, false, func(_ *ssa.Function, call ssa.CallInstruction) {
			if cv, ok := call.(*ssa.Call); ok && errResultIndex(call.Common().Signature()) == 1 {
				inner = cv
			}
		})
		if inner == nil {
			c.Fail(rule, k+" forwards to the sink", fn.Pos(), "no call returning (n, error) found")
			continue
		}
		okRet := true
		for _, r := range returnsOf(fn) {
			for i := 0; i < 2; i++ {
				v, _ := retResult(r, i)
				good := false
				for _, o := range Origins(v, OriginOpts{}) {
					if o.Kind == OrgCall && o.Call == ssa.CallInstruction(inner) && o.Index == i {
						good = true
					} else {
						good = false
						break
					}
				}
				if !good {
					okRet = false
				}
			}
		}
		c.Check(rule, k+" returns the sink's (n, err) unchanged", fn.Pos(), okRet, k+" must return exactly what the underlying writer returned")
		// offset += n on every path
		pc := newPathCons(p)
		ok, bad, _ := pc.CheckField(fn, off, nil, "value")
		// mode "value" treats only non-constant first results as success; also require at least one store
		wb := pc.writeBlocks(fn, off)
		c.Check(rule, k+" adds n to the offset on every path", bad, ok && len(wb) > 0, "the offset recorded in the footer no longer counts every byte handed to the sink")
	}
	c.Min(rule, 7)
}

func c14ReadAt(c *Ctx) {
	p := c.P
	rule := "C14.readat"
	obj := p.LookupFunc("readAt")
	if !c.Anchor(rule, "readAt", obj != nil) {
		return
	}
	fn := p.SSAFunc(obj)
	// every return whose error can be the nil constant is dominated by the
	// true edge of n == len(p)
	var eqTrue []*ssa.BasicBlock
	for _, b := range fn.Blocks {
		if len(b.Instrs) == 0 {
			continue
		}
		ifi, ok := b.Instrs[len(b.Instrs)-1].(*ssa.If)
		if !ok {
			continue
		}
		bo, ok := ifi.Cond.(*ssa.BinOp)
		if !ok || (bo.Op != token.EQL && bo.Op != token.NEQ) {
			continue
		}
		isLen := func(v ssa.Value) bool {
			if cl, ok := v.(*ssa.Call); ok {
				if bi, ok := cl.Call.Value.(*ssa.Builtin); ok && bi.Name() == "len" {
					_, isPar := cl.Call.Args[0].(*ssa.Parameter)
					return isPar
				}
			}
			return false
		}
		if isLen(bo.X) || isLen(bo.Y) {
			if bo.Op == token.EQL {
				eqTrue = append(eqTrue, b.Succs[0])
			} else {
				eqTrue = append(eqTrue, b.Succs[1])
			}
		}
	}
	ok := len(eqTrue) > 0
	for _, r := range returnsOf(fn) {
		v, rec := retResult(r, 1)
		if rec || v == nil {
			continue
		}
		canBeNilConst := false
		for _, o := range Origins(v, OriginOpts{}) {
			if o.Kind == OrgConst {
				canBeNilConst = true
			}
		}
		if !canBeNilConst {
			continue
		}
		dom := false
		for _, e := range eqTrue {
			if e.Dominates(r.Block()) {
				dom = true
			}
		}
		if !dom {
			ok = false
		}
	}
	c.Check(rule, "readAt clears the error only when the buffer was filled", fn.Pos(), ok, "readAt can return a nil error although fewer than len(p) bytes were read: a short read of the source would be taken for data")
	c.Min(rule, 1)
	_ = types.Typ
}

// c14ChunkEOF: io.EOF is how a page reader says "no more pages". The page
// reader of a file takes the io.EOF of its byte stream for that only after
// checking that the whole chunk was consumed: in (*FilePages).ReadPage every
// returned error that comes from a read of the stream (header decode, page
// body, decryption envelope) went through a function of the library that
// compares the position with the size of the chunk's section, or that turns a
// bare io.EOF into io.ErrUnexpectedEOF.
func c14ChunkEOF(c *Ctx) {
	rule := "C14.chunkeof"
	p := c.P
	obj := p.LookupFunc("(*FilePages).ReadPage")
	if !c.Anchor(rule, "(*FilePages).ReadPage", obj != nil) {
		return
	}
	fn := p.SSAFunc(obj)
	io := NewIOErrs(p)
	vets := func(g *ssa.Function) bool {
		if g == nil || g.Blocks == nil || !inModule(g) {
			return false
		}
		ok := false
		allInstrs(g, true, func(_ *ssa.Function, ins ssa.Instruction) {
			switch x := ins.(type) {
			case ssa.CallInstruction:
				if calleeName(x) == "io.(*SectionReader).Size" {
					ok = true
				}
			case *ssa.UnOp:
				if gl, isG := x.X.(*ssa.Global); isG && gl.Name() == "ErrUnexpectedEOF" {
					ok = true
				}
			}
		})
		return ok
	}
	n := 0
	var bad []string
	// the error results of fn, followed into the unexported helpers of the same
	// type that hand it their own stream errors
	var scan func(fn *ssa.Function, depth int)
	var scanValue func(rv ssa.Value, fn *ssa.Function, depth int, seen map[ssa.Value]bool)
	// the error operands of a wrapping fmt.Errorf("…%w", err)
	wrapped := func(call ssa.CallInstruction) []ssa.Value {
		var out []ssa.Value
		if calleeName(call) != "fmt.Errorf" || len(call.Common().Args) < 2 {
			return nil
		}
		sl, ok := call.Common().Args[1].(*ssa.Slice)
		if !ok {
			return nil
		}
		arr, ok := sl.X.(*ssa.Alloc)
		if !ok {
			return nil
		}
		for _, r := range *arr.Referrers() {
			ia, ok := r.(*ssa.IndexAddr)
			if !ok {
				continue
			}
			for _, rr := range *ia.Referrers() {
				st, ok := rr.(*ssa.Store)
				if !ok || st.Addr != ssa.Value(ia) {
					continue
				}
				v := st.Val
				switch x := v.(type) {
				case *ssa.MakeInterface:
					v = x.X
				case *ssa.ChangeInterface:
					v = x.X
				}
				if isErrorType(v.Type()) {
					out = append(out, v)
				}
			}
		}
		return out
	}
	scanValue = func(rv ssa.Value, fn *ssa.Function, depth int, seen map[ssa.Value]bool) {
		if seen[rv] {
			return
		}
		seen[rv] = true
		for _, o := range Origins(rv, OriginOpts{}) {
			if o.Kind != OrgCall {
				continue
			}
			// a wrapped error is the error
			if ws := wrapped(o.Call); len(ws) > 0 {
				for _, w := range ws {
					scanValue(w, fn, depth, seen)
				}
				continue
			}
			callee := o.Call.Common().StaticCallee()
			// an error produced by a read of the stream, returned as is?
			if !io.CallMayFail(o.Call) {
				continue
			}
			if callee != nil && vets(callee) {
				n++
				continue
			}
			if callee != nil && depth < 3 && callee.Blocks != nil && callee.Signature.Recv() != nil && fn.Signature.Recv() != nil &&
				types.Identical(callee.Signature.Recv().Type(), fn.Signature.Recv().Type()) && callee.Object() != nil && !callee.Object().Exported() && callee != fn {
				before := n
				scan(callee, depth+1)
				if n > before {
					continue
				}
			}
			n++
			bad = append(bad, calleeName(o.Call)+" ("+p.Pos(o.Call.Pos())+")")
		}
	}
	scanned := map[*ssa.Function]bool{}
	scan = func(fn *ssa.Function, depth int) {
		if scanned[fn] {
			return
		}
		scanned[fn] = true
		for _, ret := range returnsOf(fn) {
			if len(ret.Results) == 0 {
				continue
			}
			rv, _ := retResult(ret, len(ret.Results)-1)
			if rv == nil || isNilConst(rv) || !isErrorType(rv.Type()) {
				continue
			}
			scanValue(rv, fn, depth, map[ssa.Value]bool{})
		}
	}
	scan(fn, 0)
	// … and the vetting itself: where such a function finds that fewer bytes
	// were consumed than the section holds, what it returns is not the error
	// it was handed (an io.EOF), bare or wrapped with %w
	for g := range scanned {
		_ = g
	}
	for _, g := range p.ModuleSSAFuncs() {
		if g.Origin() != nil || g.Blocks == nil || fnPkgPath(g) != modPath || g.Signature.Recv() == nil || fn.Signature.Recv() == nil ||
			!types.Identical(g.Signature.Recv().Type(), fn.Signature.Recv().Type()) {
			continue
		}
		var errParam *ssa.Parameter
		for _, prm := range g.Params {
			if isErrorType(prm.Type()) {
				errParam = prm
			}
		}
		if errParam == nil {
			continue
		}
		for _, b := range g.Blocks {
			if len(b.Instrs) == 0 {
				continue
			}
			ifi, ok := b.Instrs[len(b.Instrs)-1].(*ssa.If)
			if !ok {
				continue
			}
			bo, ok := ifi.Cond.(*ssa.BinOp)
			if !ok {
				continue
			}
			sizeOn := 0 // 1: Size() is the right operand, 2: the left one
			if cl, ok := bo.Y.(*ssa.Call); ok && calleeName(cl) == "io.(*SectionReader).Size" {
				sizeOn = 1
			}
			if cl, ok := bo.X.(*ssa.Call); ok && calleeName(cl) == "io.(*SectionReader).Size" {
				sizeOn = 2
			}
			if sizeOn == 0 {
				continue
			}
			var short *ssa.BasicBlock
			switch {
			case (bo.Op == token.LSS && sizeOn == 1) || (bo.Op == token.GTR && sizeOn == 2) || bo.Op == token.NEQ:
				short = b.Succs[0]
			case (bo.Op == token.GEQ && sizeOn == 1) || (bo.Op == token.LEQ && sizeOn == 2) || bo.Op == token.EQL:
				short = b.Succs[1]
			default:
				continue
			}
			if len(short.Preds) != 1 {
				continue
			}
			handsBack := ""
			for _, ret := range returnsOf(g) {
				if !short.Dominates(ret.Block()) || len(ret.Results) == 0 {
					continue
				}
				rv, _ := retResult(ret, len(ret.Results)-1)
				if rv == nil {
					continue
				}
				var carries func(v ssa.Value, depth int) bool
				carries = func(v ssa.Value, depth int) bool {
					if depth > 4 {
						return false
					}
					for _, o := range Origins(v, OriginOpts{}) {
						if o.Val == ssa.Value(errParam) {
							return true
						}
						if o.Kind == OrgCall {
							for _, w := range wrapped(o.Call) {
								if w == ssa.Value(errParam) || carries(w, depth+1) {
									return true
								}
							}
						}
					}
					return v == ssa.Value(errParam)
				}
				if carries(rv, 0) {
					handsBack = p.Pos(ret.Pos())
				}
			}
			c.Check(rule, FuncKey(g)+": a chunk found short is not reported with the error that was handed in", ifi.Cond.Pos(), handsBack == "",
				FuncKey(g)+" finds that the source ended before the end of the column chunk and returns ("+handsBack+") the error it was given — the io.EOF of the stream — bare or wrapped with %w: errors.Is(err, io.EOF) holds for it, so CopyRows, ReadRowsFrom and the row path of WriteRowGroup take it for the end of the rows and report success with rows missing")
		}
	}
	sort.Strings(bad)
	c.Check(rule, "(*FilePages).ReadPage vets the io.EOF of its stream", fn.Pos(), len(bad) == 0 && n > 0, "(*FilePages).ReadPage returns the error of "+strings.Join(bad, ", ")+" as it is: when the source ends before the end of the column chunk its io.EOF is taken for the end of the pages and the remaining rows go missing without an error")
	c.Stats[rule+".stream_errors_returned"] = n
}

// c14CopyLen: io.Copy and ReadFrom end quietly on the io.EOF of their source.
// When the source is a section of a known length (io.NewSectionReader), the
// only way to notice that it ended early is the byte count: the count returned
// by a copy from a section reader is used (compared with the length), never
// discarded.
func c14CopyLen(c *Ctx) {
	rule := "C14.copylen"
	p := c.P
	n := 0
	for _, fn := range p.ModuleSSAFuncs() {
		if fn.Origin() != nil || fn.Blocks == nil || !rootImportClosure(p)[fnPkgPath(fn)] {
			continue
		}
		k := 0
		allCalls(fn, false, func(_ *ssa.Function, ci ssa.CallInstruction) {
			call, ok := ci.(*ssa.Call)
			if !ok {
				return
			}
			name := calleeName(call)
			var src ssa.Value
			switch {
			case name == "io.Copy" && len(call.Call.Args) == 2:
				src = call.Call.Args[1]
			case strings.HasSuffix(name, ").ReadFrom") && len(call.Call.Args) >= 1:
				src = call.Call.Args[len(call.Call.Args)-1]
			default:
				return
			}
			section := false
			for _, o := range Origins(src, OriginOpts{}) {
				if o.Kind == OrgCall && calleeName(o.Call) == "io.NewSectionReader" {
					section = true
				}
			}
			if !section {
				return
			}
			n++
			used := false
			for _, r := range *call.Referrers() {
				if ex, ok := r.(*ssa.Extract); ok && ex.Index == 0 && ex.Referrers() != nil && len(*ex.Referrers()) > 0 {
					used = true
				}
			}
			key := FuncKey(fn) + ": byte count of a copy from a section is checked"
			if k > 0 {
				key += " #" + itoa(k)
			}
			k++
			c.Check(rule, key, call.Pos(), used, FuncKey(fn)+" copies a section of known length with "+name+" and discards the number of bytes copied: a source that ends early (short read with io.EOF) yields a truncated copy and no error")
		})
	}
	c.Stats[rule+".section_copies"] = n
	c.Min(rule, 1)
}

// c14FreshCompare — an error that was just made by fmt.Errorf or errors.New is
// never identical to a sentinel: a `==`/`!=` comparison between a value whose
// every origin is such a constructor call and a package-level error variable
// can have only one outcome. Written after a wrap was inserted one line above
// an `err == io.EOF` test, which then let the wrapped io.EOF out.
func c14FreshCompare(c *Ctx) {
	rule := "C14.freshcompare"
	p := c.P
	examined := 0
	var bad []string
	for _, fn := range p.ModuleSSAFuncs() {
		if fn.Origin() != nil || fn.Blocks == nil || !inModule(fn) {
			continue
		}
		allInstrs(fn, false, func(_ *ssa.Function, ins ssa.Instruction) {
			bo, ok := ins.(*ssa.BinOp)
			if !ok || (bo.Op != token.EQL && bo.Op != token.NEQ) || !isErrorType(bo.X.Type()) {
				return
			}
			isSentinel := func(v ssa.Value) bool {
				u, ok := v.(*ssa.UnOp)
				if !ok {
					return false
				}
				_, isG := u.X.(*ssa.Global)
				return isG
			}
			var other ssa.Value
			switch {
			case isSentinel(bo.X):
				other = bo.Y
			case isSentinel(bo.Y):
				other = bo.X
			default:
				return
			}
			examined++
			os := Origins(other, OriginOpts{})
			if len(os) == 0 {
				return
			}
			for _, o := range os {
				if o.Kind != OrgCall || !errorConstructors[calleeName(o.Call)] && calleeName(o.Call) != "errors.New" {
					return
				}
			}
			bad = append(bad, FuncKey(fn)+" at "+p.Pos(bo.Pos()))
		})
	}
	sort.Strings(bad)
	c.Stats[rule+".sentinel_comparisons"] = examined
	c.Check(rule, "no freshly made error is compared with a sentinel by identity", token.NoPos, len(bad) == 0 && examined >= 20, strings.Join(bad, "; ")+": the error on one side was just made by fmt.Errorf / errors.New and cannot be the sentinel it is compared with — the branch that handles the sentinel (an io.EOF turned into io.ErrUnexpectedEOF) is dead and the wrapped sentinel escapes to callers that test errors.Is")
}

// c14EOFCount — io.ReaderAt.ReadAt and io.ReadFull may report io.EOF together
// with fewer bytes than asked for: code that tolerates the io.EOF of such a
// call (compares its error with io.EOF, or asks errors.Is) looks at the byte
// count it returned. Tolerating the error while discarding the count works on
// whatever the buffer held before.
func c14EOFCount(c *Ctx) {
	rule := "C14.eofcount"
	p := c.P
	n := 0
	for _, fn := range p.ModuleSSAFuncs() {
		if fn.Origin() != nil || fn.Blocks == nil || !inModule(fn) {
			continue
		}
		k := 0
		allCalls(fn, false, func(_ *ssa.Function, ci ssa.CallInstruction) {
			call, ok := ci.(*ssa.Call)
			if !ok {
				return
			}
			name := calleeName(call)
			isRead := name == "io.ReadFull" || name == "io.ReadAtLeast"
			if cc := call.Common(); cc.IsInvoke() && (cc.Method.Name() == "ReadAt" || cc.Method.Name() == "Read") {
				isRead = true
			}
			if !isRead || call.Referrers() == nil {
				return
			}
			var cnt, errv ssa.Value
			for _, r := range *call.Referrers() {
				if ex, ok := r.(*ssa.Extract); ok {
					if isErrorType(ex.Type()) {
						errv = ex
					} else {
						cnt = ex
					}
				}
			}
			if errv == nil {
				return
			}
			// is the io.EOF of this call tolerated?
			// tolerated: on the edge where the error is io.EOF a return without
			// error (or with the nil constant) can be reached
			tolerated := false
			succeeds := func(from *ssa.BasicBlock) bool {
				for rb := range reachableAvoidingSet(from, nil, nil) {
					ret, ok := rb.Instrs[len(rb.Instrs)-1].(*ssa.Return)
					if !ok {
						continue
					}
					if len(ret.Results) == 0 {
						return true
					}
					rv, _ := retResult(ret, len(ret.Results)-1) // sees through results spilled for deferred calls
					if rv == nil || !isErrorType(rv.Type()) || isNilConst(rv) {
						return true
					}
					for _, o := range Origins(rv, OriginOpts{}) {
						if o.Kind == OrgConst {
							if k, ok := o.Val.(*ssa.Const); ok && k.IsNil() {
								return true
							}
						}
					}
				}
				return false
			}
			for _, r := range realReferrers(errv) {
				x, ok := r.(*ssa.BinOp)
				if !ok || (x.Op != token.EQL && x.Op != token.NEQ) {
					continue
				}
				isEOF := false
				for _, side := range []ssa.Value{x.X, x.Y} {
					if u, ok := side.(*ssa.UnOp); ok {
						if g, ok := u.X.(*ssa.Global); ok && g.Name() == "EOF" {
							isEOF = true
						}
					}
				}
				if !isEOF {
					continue
				}
				for _, rr := range realReferrers(x) {
					ifi, ok := rr.(*ssa.If)
					if !ok {
						continue
					}
					eofEdge := ifi.Block().Succs[0]
					if x.Op == token.NEQ {
						eofEdge = ifi.Block().Succs[1]
					}
					if succeeds(eofEdge) {
						tolerated = true
					}
				}
			}
			if !tolerated {
				return
			}
			n++
			k++
			used := cnt != nil && len(realReferrers(cnt)) > 0
			c.Check(rule, FuncKey(fn)+" looks at the byte count of the read whose io.EOF it tolerates#"+itoa(k), call.Pos(), used, FuncKey(fn)+" compares the error of "+name+" with io.EOF and discards the number of bytes read: a short read goes unnoticed and the caller works on whatever the buffer held before (a bloom filter block of the previous probe)")
		})
	}
	c.Min(rule, 1)
}
