package main

import (
	"go/token"
	"sort"
	"strings"

	"golang.org/x/tools/go/ssa"
)

// T-LOOPCOND: a loop whose only exit is its condition, and whose condition
// depends on nothing the loop changes (no loop-carried variable, no memory
// the loop may write, no call), either never runs or never ends: an index
// that was meant to advance does not (finding F35). The rule computes the
// natural loop of every conditional back-edge target and reports the loops
// whose condition is invariant and whose body has no other way out.

func runLoopCondRule(c *Ctx, rule string, scope func(fn *ssa.Function) bool, min int) {
	p := c.P
	nloops := 0
	for _, fn := range p.ModuleSSAFuncs() {
		if fn.Origin() != nil || fn.Blocks == nil || !scope(fn) {
			continue
		}
		var bad []string
		examined := 0
		for _, h := range fn.Blocks {
			if len(h.Instrs) == 0 {
				continue
			}
			ifi, ok := h.Instrs[len(h.Instrs)-1].(*ssa.If)
			if !ok {
				continue
			}
			// the loop body: blocks from which h is reachable, starting at one successor
			for si, s := range h.Succs {
				other := h.Succs[1-si]
				if s == h {
					continue
				}
				body := map[*ssa.BasicBlock]bool{}
				// blocks reachable from s without passing h that can reach h
				fwd := reachableAvoidingSet(s, map[*ssa.BasicBlock]bool{h: true}, nil)
				backs := false
				for b := range fwd {
					for _, x := range b.Succs {
						if x == h {
							backs = true
						}
					}
				}
				if !backs {
					continue
				}
				// keep only the blocks that can reach h (the cycle), others are exits
				canReach := func(b *ssa.BasicBlock) bool {
					r := reachableAvoidingSet(b, nil, nil)
					return r[h]
				}
				exits := false
				for b := range fwd {
					if canReach(b) {
						body[b] = true
					} else {
						exits = true
					}
				}
				if reachableAvoidingSet(other, nil, nil)[h] && other != h {
					// the other edge also stays in a loop around h (nested loops): not the exit edge of this loop
					continue
				}
				examined++
				if exits {
					continue // break / return inside the body
				}
				for b := range body {
					if len(b.Instrs) == 0 {
						continue
					}
					switch b.Instrs[len(b.Instrs)-1].(type) {
					case *ssa.Return, *ssa.Panic:
						exits = true
					}
				}
				if exits {
					continue
				}
				body[h] = true
				if !invariantIn(ifi.Cond, body, map[ssa.Value]bool{}) {
					continue
				}
				// a body that calls anything may panic or block on purpose (select{}-like loops are not conditions): require a real body
				bad = append(bad, "loop at "+p.Pos(ifi.Cond.Pos())+" ("+strings.TrimSpace(ifi.Cond.String())+")")
			}
		}
		if examined == 0 {
			continue
		}
		nloops += examined
		sort.Strings(bad)
		if len(bad) > 0 {
			c.Fail(rule, FuncKey(fn)+": loop conditions depend on something the loop changes", fn.Pos(), "in %s the %s has a condition that nothing in the loop can change and no other exit: once entered it never ends (an index that should advance does not)", FuncKey(fn), strings.Join(bad, ", "))
		}
	}
	c.Pass(rule, "conditional loops examined", token.NoPos, "%d loops with a single conditional exit were examined", nloops)
	c.Stats[rule+".loops"] = nloops
	if nloops < min {
		c.Fail(rule, "instance-count", token.NoPos, "only %d conditional loops found (expected at least %d): the rule would pass vacuously", nloops, min)
	}
}

// invariantIn: v cannot change between iterations of the loop made of body.
func invariantIn(v ssa.Value, body map[*ssa.BasicBlock]bool, seen map[ssa.Value]bool) bool {
	if seen[v] {
		return true
	}
	seen[v] = true
	ins, ok := v.(ssa.Instruction)
	if !ok {
		return true // parameter, constant, global address, free variable
	}
	if !body[ins.Block()] {
		return true // computed before the loop
	}
	switch x := v.(type) {
	case *ssa.Phi:
		return false // loop-carried
	case *ssa.Call, *ssa.UnOp, *ssa.Lookup, *ssa.Index, *ssa.Next, *ssa.Extract, *ssa.TypeAssert, *ssa.Select, *ssa.Range:
		if u, ok := v.(*ssa.UnOp); ok && u.Op != token.MUL && u.Op != token.ARROW {
			return invariantIn(u.X, body, seen)
		}
		_ = x
		return false // reads memory / calls / iterates: may change
	case *ssa.BinOp:
		return invariantIn(x.X, body, seen) && invariantIn(x.Y, body, seen)
	case *ssa.Convert:
		return invariantIn(x.X, body, seen)
	case *ssa.ChangeType:
		return invariantIn(x.X, body, seen)
	case *ssa.Field:
		return invariantIn(x.X, body, seen)
	}
	return false
}
