package main

import (
	"go/token"
	"go/types"

	"golang.org/x/tools/go/ssa"
)

// C05.unwrap — a logical type that changes the order of its column (DECIMAL
// stored as bytes is signed) is a struct that embeds the physical Type, answers
// LogicalType itself and overrides what depends on the order. The helper objects it builds
// (dictionary, page, column buffer) keep a pointer to it and report it from
// their Type() method; reporting the embedded physical Type instead
// (`d.typ.Type`) silently gives the writer the unsigned comparison, index and
// truncation of the physical type. In Type() methods, no value is loaded from
// the embedded Type field of a wrapper reached through a field of the receiver.
func c05Unwrap(c *Ctx) {
	p := c.P
	rule := "C05.unwrap"
	n := 0
	embedsType := func(t types.Type) bool {
		st := structOf(t)
		if st == nil {
			return false
		}
		embeds := false
		for i := 0; i < st.NumFields(); i++ {
			if f := st.Field(i); f.Embedded() && f.Name() == "Type" {
				embeds = true
			}
		}
		if !embeds {
			return false
		}
		// a logical type: it answers LogicalType itself (an adapter such as the
		// indexed type, which merely carries a dictionary along, does not)
		m, promoted := MethodOf(t, "LogicalType")
		if m == nil {
			if pt, ok := t.(*types.Pointer); !ok {
				m, promoted = MethodOf(types.NewPointer(t), "LogicalType")
			} else {
				_ = pt
			}
		}
		return m != nil && !promoted
	}
	for _, fn := range p.ModuleSSAFuncs() {
		if fn.Origin() != nil || fn.Blocks == nil || fn.Signature.Recv() == nil || fn.Name() != "Type" || fnPkgPath(fn) != modPath {
			continue
		}
		holdsWrapper := false
		bad := ""
		allInstrs(fn, false, func(_ *ssa.Function, ins ssa.Instruction) {
			u, ok := ins.(*ssa.UnOp)
			if !ok || u.Op != token.MUL {
				return
			}
			fs, root, elem := fieldChain(u.X)
			if len(fs) == 0 || elem || root != ssa.Value(fn.Params[0]) {
				return
			}
			if len(fs) == 1 && embedsType(fs[0].Type()) {
				holdsWrapper = true
			}
			if last := fs[len(fs)-1]; len(fs) >= 2 && last.Embedded() && last.Name() == "Type" && embedsType(fs[len(fs)-2].Type()) {
				holdsWrapper = true
				bad = p.Pos(u.Pos())
			}
		})
		if !holdsWrapper {
			continue
		}
		n++
		c.Check(rule, FuncKey(fn)+": reports the logical type it belongs to, not the physical type inside it", fn.Pos(), bad == "",
			FuncKey(fn)+" takes the physical Type embedded in its logical type ("+bad+") where its siblings report the logical type itself: the column writer then merges page bounds into chunk statistics, builds the column index and truncates bounds with the unsigned order of the physical type, and a chunk of signed decimals records min=+1, max=-3")
	}
	c.Min(rule, 1)
}
