package main

import (
	"go/token"
	"go/types"
	"sort"
	"strings"

	"golang.org/x/tools/go/ssa"
)

// T-OWN (DESIGN.md §3): storage that a reset clears *in place* must be owned
// exclusively by the object being reset. The reset entry's cover gives the
// managed access paths (e.g. writer.rowGroups.Columns.MetaData.PathInSchema,
// cleared by format.ColumnMetaData.Reset through writer.reset); every value
// published into such a path must be freshly allocated or moved from the same
// path, and a shallow struct copy published above such a path must be followed
// by a fresh re-assignment of the path in the same function.

type ownSpec struct {
	Owner  string // struct type whose reset manages the storage ("writer")
	Reset  string // reset entry
	Exempt map[string]string
}

type ownedPath struct {
	key   string
	chain []*types.Var
}

func computeOwnedPaths(p *Prog, cover *chainSet, heads map[*types.Var]bool) []ownedPath {
	var out []ownedPath
	for _, k := range cover.keys() {
		w := cover.m[k]
		if len(w.Chain) == 0 || !heads[w.Chain[0]] {
			continue
		}
		last := w.Chain[len(w.Chain)-1]
		if _, ok := last.Type().Underlying().(*types.Slice); !ok {
			continue
		}
		_, below := cover.coversBelow(w.Chain)
		if w.Kind&EffElem != 0 || below {
			out = append(out, ownedPath{key: k, chain: w.Chain})
		}
	}
	return out
}

// sourcesOf lists the values whose storage ends up inside v: v itself, phi
// inputs, both operands of append, the operand of slices.Clone-like copies is
// NOT included (fresh outer array), slice/convert operands.
func sourcesOf(v ssa.Value) []ssa.Value {
	var out []ssa.Value
	seen := map[ssa.Value]bool{}
	var walk func(v ssa.Value)
	walk = func(v ssa.Value) {
		if v == nil || seen[v] {
			return
		}
		seen[v] = true
		out = append(out, v)
		switch x := v.(type) {
		case *ssa.Phi:
			for _, e := range x.Edges {
				walk(e)
			}
		case *ssa.Slice:
			walk(x.X)
		case *ssa.ChangeType:
			walk(x.X)
		case *ssa.Convert:
			walk(x.X)
		case *ssa.UnOp:
			if x.Op == token.MUL {
				if a, ok := x.X.(*ssa.Alloc); ok {
					walk(a)
				}
			}
		case *ssa.Call:
			if b, ok := x.Call.Value.(*ssa.Builtin); ok && b.Name() == "append" {
				// the destination's storage is reused; appended elements are
				// copied, except that a variadic composite (`append(s, T{…})`)
				// is the very storage of the new element
				walk(x.Call.Args[0])
				if len(x.Call.Args) == 2 {
					if sl, ok := x.Call.Args[1].(*ssa.Slice); ok {
						if a, ok := sl.X.(*ssa.Alloc); ok && a.Comment == "varargs" {
							walk(sl)
						}
					}
				}
			}
		}
	}
	walk(v)
	return out
}

// isShallowCopyOf reports whether v is (a phi of) slices.Clone(x) or
// append(dst, x...) / a struct load, i.e. an outer copy whose nested slices
// still alias the source elements; src is the copied-from value.
type shallowSrc struct {
	arg  ssa.Value
	call *ssa.Call
}

func shallowCopySources(v ssa.Value) []shallowSrc {
	var out []shallowSrc
	for _, s := range sourcesOf(v) {
		c, ok := s.(*ssa.Call)
		if !ok {
			continue
		}
		if b, ok := c.Call.Value.(*ssa.Builtin); ok && b.Name() == "append" && len(c.Call.Args) == 2 {
			out = append(out, shallowSrc{c.Call.Args[1], c})
			continue
		}
		if callee := c.Call.StaticCallee(); callee != nil && fnName(callee) == "Clone" && fnPkg(callee) != nil && fnPkg(callee).Path() == "slices" {
			out = append(out, shallowSrc{c.Call.Args[0], c})
		}
	}
	return out
}

// sameFieldReads lists the loads of field f that v derives from (through
// slicing and append's destination operand).
func sameFieldReads(v ssa.Value, f *types.Var, depth int) []ssa.Instruction {
	var out []ssa.Instruction
	if depth > 6 {
		return out
	}
	for _, o := range Origins(v, OriginOpts{}) {
		switch o.Kind {
		case OrgField:
			if o.Field == f {
				if ins, ok := o.Val.(ssa.Instruction); ok {
					out = append(out, ins)
				}
			}
		case OrgCall:
			cc := o.Call.Common()
			if b, ok := cc.Value.(*ssa.Builtin); ok && b.Name() == "append" {
				out = append(out, sameFieldReads(cc.Args[0], f, depth+1)...)
			} else if callee := cc.StaticCallee(); callee != nil && inModule(callee) {
				// append wrappers of the module return their argument's storage
				for _, a := range cc.Args {
					if _, isSlice := a.Type().Underlying().(*types.Slice); isSlice {
						out = append(out, sameFieldReads(a, f, depth+1)...)
					}
				}
			}
		}
	}
	return out
}

// executesAfter: can b execute after a within one function?
func executesAfter(a, b ssa.Instruction) bool {
	if a == nil || b == nil || a.Parent() != b.Parent() {
		return true
	}
	ba, bb := a.Block(), b.Block()
	reach := reachableAvoidingSet(ba, nil, nil)
	selfLoop := false
	for _, s := range ba.Succs {
		if s == ba || reachableAvoidingSet(s, nil, nil)[ba] {
			selfLoop = true
		}
	}
	if ba == bb {
		if selfLoop {
			return true
		}
		ia, ib := -1, -1
		for i, ins := range ba.Instrs {
			if ins == a {
				ia = i
			}
			if ins == b {
				ib = i
			}
		}
		return ib > ia
	}
	return reach[bb]
}

func runOwnRule(c *Ctx, rule string, spec ownSpec) {
	p := c.P
	owner := p.LookupType(spec.Owner)
	resetObj := p.LookupFunc(spec.Reset)
	if !c.Anchor(rule, "type "+spec.Owner, owner != nil) || !c.Anchor(rule, spec.Reset, resetObj != nil) {
		return
	}
	heads := fieldsOfStruct(owner)
	cover, closure := ResetCover(p, []*ssa.Function{p.SSAFunc(resetObj)}, 7)
	owned := computeOwnedPaths(p, cover, heads)
	ownedByKey := map[string]ownedPath{}
	for _, o := range owned {
		ownedByKey[o.key] = o
	}
	c.Stats[rule+".owned_paths"] = len(owned)
	if len(owned) == 0 {
		c.Fail(rule, "owned-paths", token.NoPos, "no in-place cleared storage found under %s: the rule would be vacuous", spec.Reset)
		return
	}

	stores := map[string][]ownStore{} // exact owned path -> stores
	type copyInfo struct {
		fn   *ssa.Function
		pos  token.Pos
		path []*types.Var
		src  string
		at   ssa.Instruction // the copying instruction (append / Clone / struct load)
	}
	var copies []copyInfo
	nfn := 0
	for _, fn := range p.ModuleSSAFuncs() {
		if fn.Origin() != nil || closure[fn] {
			continue
		}
		// quick filter: does fn touch a head field of the owner at all?
		touches := false
		allInstrs(fn, false, func(_ *ssa.Function, ins ssa.Instruction) {
			if fa, ok := ins.(*ssa.FieldAddr); ok {
				if st := structOf(fa.X.Type()); st != nil && heads[st.Field(fa.Field).Origin()] {
					touches = true
				}
			}
		})
		if !touches {
			continue
		}
		nfn++
		// fixpoint: managed path of local values
		valuePath := map[ssa.Value][]*types.Var{}
		targetPath := func(addr ssa.Value) []*types.Var {
			fields, root, _ := fieldChainPhi(addr)
			if len(fields) > 0 && heads[fields[0]] {
				return fields
			}
			if vp, ok := valuePath[root]; ok {
				return append(append([]*types.Var{}, vp...), fields...)
			}
			return nil
		}
		for changed, iter := true, 0; changed && iter < 10; iter++ {
			changed = false
			allInstrs(fn, false, func(_ *ssa.Function, ins ssa.Instruction) {
				st, ok := ins.(*ssa.Store)
				if !ok {
					return
				}
				tp := targetPath(st.Addr)
				if tp == nil {
					return
				}
				for _, sv := range sourcesOf(st.Val) {
					switch sv.(type) {
					case *ssa.Const, *ssa.Parameter, *ssa.Global:
						continue
					}
					if _, ok := valuePath[sv]; !ok {
						valuePath[sv] = tp
						changed = true
					}
				}
			})
			// a phi of published values denotes the same published storage
			allInstrs(fn, false, func(_ *ssa.Function, ins ssa.Instruction) {
				phi, ok := ins.(*ssa.Phi)
				if !ok {
					return
				}
				if _, done := valuePath[phi]; done {
					return
				}
				for _, e := range phi.Edges {
					if vp, ok := valuePath[e]; ok {
						valuePath[phi] = vp
						changed = true
						return
					}
				}
			})
		}
		allInstrs(fn, false, func(_ *ssa.Function, ins ssa.Instruction) {
			st, ok := ins.(*ssa.Store)
			if !ok {
				return
			}
			tp := targetPath(st.Addr)
			if tp == nil {
				return
			}
			key := chainString(p, tp)
			if _, ok := ownedByKey[key]; ok {
				stores[key] = append(stores[key], ownStore{fn, st, tp})
			}
			// shallow copies published above owned paths
			for _, src := range shallowCopySources(st.Val) {
				copies = append(copies, copyInfo{fn, st.Pos(), tp, describeValue(p, src.arg), src.call})
			}
			if _, isStruct := st.Val.Type().Underlying().(*types.Struct); isStruct {
				if u, ok := st.Val.(*ssa.UnOp); ok && u.Op == token.MUL {
					if _, fresh := u.X.(*ssa.Alloc); !fresh {
						copies = append(copies, copyInfo{fn, st.Pos(), tp, describeValue(p, u.X), u})
					}
				}
			}
		})
	}
	c.Stats[rule+".functions_touching_owner"] = nfn

	// A: direct stores into owned paths must be fresh or moved from the same path
	var keys []string
	for k := range ownedByKey {
		keys = append(keys, k)
	}
	sort.Strings(keys)
	// re-own candidates: stores of owned values; reads lists the loads of
	// the same field the value is built on (empty = freshly allocated)
	type reown struct {
		fn    *ssa.Function
		reads []ssa.Instruction
	}
	reowned := map[string][]reown{}
	for _, key := range keys {
		for i, s := range stores[key] {
			bad := ownedValueProblem(p, s.st.Val, s.path[len(s.path)-1], 0)
			okey := key + " <- " + FuncKey(s.fn)
			if n := countBefore(stores[key][:i], s.fn); n > 0 {
				okey += "#" + itoa(n)
			}
			if bad == "" {
				c.Pass(rule, okey, s.st.Pos(), "value stored into reset-managed storage is freshly allocated or moved from the same path")
				// after a shallow struct copy the field holds the *source's*
				// slice, so `append(x.f[:0], …)` executed after the copy
				// appends into the live storage: the reads of the same field
				// the value is built on are kept and ordered against the copy
				reowned[key] = append(reowned[key], reown{s.fn, sameFieldReads(s.st.Val, s.path[len(s.path)-1], 0)})
			} else if why, ok := spec.Exempt[okey]; ok {
				c.Pass(rule, okey, s.st.Pos(), "exempt: %s", why)
			} else {
				c.Fail(rule, okey, s.st.Pos(), "%s stores %s into %s, which %s clears in place: the next Reset scribbles over storage that is still live elsewhere", FuncKey(s.fn), bad, key, spec.Reset)
			}
		}
	}
	// B: shallow copies above owned paths need a fresh re-assignment
	done := map[string]bool{}
	for _, cp := range copies {
		cpKey := chainString(p, cp.path)
		for _, key := range keys {
			if !strings.HasPrefix(key, cpKey+".") {
				continue
			}
			okey := key + " after shallow copy in " + FuncKey(cp.fn)
			if done[okey] {
				continue
			}
			done[okey] = true
			isReowned, aliasing := false, false
			for _, ro := range reowned[key] {
				if ro.fn != cp.fn {
					continue
				}
				// every assignment of the field in the function must give the
				// copy storage of its own: one that appends into what the field
				// holds after the copy appends into the source's storage
				for _, rd := range ro.reads {
					if executesAfter(cp.at, rd) {
						aliasing = true
					}
				}
				isReowned = true
			}
			if isReowned && !aliasing {
				c.Pass(rule, okey, cp.pos, "copy of %s published at %s; %s is re-assigned with fresh storage in the same function", cp.src, cpKey, key)
				continue
			}
			leaf := ownedByKey[key].chain[len(ownedByKey[key].chain)-1]
			if !fieldEverAssigned(p, leaf, closure) {
				c.Pass(rule, okey, cp.pos, "%s is never assigned by the module (always nil in the source of the copy)", p.FieldName(leaf))
				continue
			}
			if why, ok := spec.Exempt[key]; ok {
				c.Pass(rule, okey, cp.pos, "exempt: %s", why)
				continue
			}
			c.Fail(rule, okey, cp.pos, "%s publishes a shallow copy of %s at %s without giving %s storage of its own; %s clears that storage in place, which destroys the live state it aliases", FuncKey(cp.fn), cp.src, cpKey, key, spec.Reset)
		}
	}
	c.Stats[rule+".shallow_copies_published"] = len(copies)
}

type ownStore struct {
	fn   *ssa.Function
	st   *ssa.Store
	path []*types.Var
}

func countBefore(xs []ownStore, fn *ssa.Function) int {
	n := 0
	for _, x := range xs {
		if x.fn == fn {
			n++
		}
	}
	return n
}

// fieldChainPhi is fieldChain that also looks through phis with a single
// non-nil incoming value (`var p *T = nil; if c { p = &x.f[i] }`).
func fieldChainPhi(v ssa.Value) (fields []*types.Var, root ssa.Value, elem bool) {
	for i := 0; i < 8; i++ {
		f, r, e := fieldChain(v)
		fields = append(append([]*types.Var{}, f...), fields...)
		if len(f) > 0 || i == 0 {
			elem = elem || (e && len(fields) == len(f))
		}
		root = r
		phi, ok := r.(*ssa.Phi)
		if !ok {
			return
		}
		var only ssa.Value
		n := 0
		for _, ed := range phi.Edges {
			if isNilConst(ed) {
				continue
			}
			only = ed
			n++
		}
		if n != 1 {
			return
		}
		v = only
	}
	return
}

func describeValue(p *Prog, v ssa.Value) string {
	fields, root, _ := fieldChain(v)
	if len(fields) > 0 {
		return chainString(p, fields)
	}
	if root != nil {
		return root.Name()
	}
	return v.Name()
}

// ownedValueProblem returns "" when v is fresh or moved from field `same`,
// otherwise a description of the aliased source.
func ownedValueProblem(p *Prog, v ssa.Value, same *types.Var, depth int) string {
	if depth > 6 {
		return "value of unknown provenance"
	}
	for _, o := range Origins(v, OriginOpts{}) {
		switch o.Kind {
		case OrgConst:
		case OrgAlloc:
		case OrgField:
			if o.Field != same {
				return "a slice aliasing live field " + p.FieldName(o.Field)
			}
		case OrgCall:
			cc := o.Call.Common()
			if b, ok := cc.Value.(*ssa.Builtin); ok {
				if b.Name() == "append" {
					if bad := ownedValueProblem(p, cc.Args[0], same, depth+1); bad != "" {
						return bad
					}
					continue
				}
				return "result of builtin " + b.Name()
			}
			callee := cc.StaticCallee()
			if callee == nil {
				return "result of dynamic call"
			}
			pk := ""
			if fnPkg(callee) != nil {
				pk = fnPkg(callee).Path()
			}
			name := fnName(callee)
			if (pk == "slices" || pk == "bytes" || pk == "maps") && (name == "Clone" || name == "Grow" || name == "Collect") {
				continue
			}
			if inModule(callee) && callee.Blocks != nil {
				// append-wrapper: result derives from parameters; check the
				// arguments bound to slice parameters of the same type
				bad := ""
				for _, ret := range returnsOf(callee) {
					rv, rec := retResult(ret, 0)
					if rec || rv == nil {
						continue
					}
					for _, ro := range Origins(rv, OriginOpts{}) {
						switch ro.Kind {
						case OrgParam:
							for i, par := range callee.Params {
								if par == ro.Val && i < len(cc.Args) {
									if b := ownedValueProblem(p, cc.Args[i], same, depth+1); b != "" {
										bad = b
									}
								}
							}
						case OrgCall:
							if b := ownedValueProblemCallInCallee(p, ro, callee, cc.Args, same, depth+1); b != "" {
								bad = b
							}
						case OrgConst, OrgAlloc:
						default:
							bad = "result of " + FuncKey(callee) + " with untracked origin"
						}
					}
				}
				if bad != "" {
					return bad
				}
				continue
			}
			return "result of " + FuncKey(callee)
		case OrgParam:
			return "caller-provided slice " + o.Val.Name()
		default:
			return "value of untracked origin " + o.Val.Name()
		}
	}
	return ""
}

// ownedValueProblemCallInCallee handles `return append(param, …)` inside an
// append-wrapper: the append's destination is a parameter of the wrapper.
func ownedValueProblemCallInCallee(p *Prog, o Origin, callee *ssa.Function, args []ssa.Value, same *types.Var, depth int) string {
	cc := o.Call.Common()
	if b, ok := cc.Value.(*ssa.Builtin); ok && b.Name() == "append" {
		for _, ao := range Origins(cc.Args[0], OriginOpts{}) {
			if ao.Kind == OrgParam {
				for i, par := range callee.Params {
					if par == ao.Val && i < len(args) {
						if bad := ownedValueProblem(p, args[i], same, depth+1); bad != "" {
							return bad
						}
					}
				}
			} else if ao.Kind != OrgConst && ao.Kind != OrgAlloc {
				return "result of " + FuncKey(callee) + " appending to untracked storage"
			}
		}
		return ""
	}
	if sc := cc.StaticCallee(); sc != nil {
		pk := ""
		if fnPkg(sc) != nil {
			pk = fnPkg(sc).Path()
		}
		if pk == "slices" && fnName(sc) == "Clone" {
			return ""
		}
	}
	return "result of " + FuncKey(callee) + " with untracked origin"
}

// fieldEverAssigned: is there any store of a non-nil value into field f in
// the module outside the reset closure?
func fieldEverAssigned(p *Prog, f *types.Var, closure map[*ssa.Function]bool) bool {
	found := false
	for _, fn := range p.ModuleSSAFuncs() {
		if fn.Origin() != nil || closure[fn] || found {
			continue
		}
		allInstrs(fn, false, func(_ *ssa.Function, ins ssa.Instruction) {
			st, ok := ins.(*ssa.Store)
			if !ok {
				return
			}
			fields, _, elem := fieldChain(st.Addr)
			if len(fields) == 0 || elem || fields[len(fields)-1] != f {
				return
			}
			if !isNilConst(st.Val) {
				found = true
			}
		})
	}
	return found
}
