package main

import (
	"go/token"

	"golang.org/x/tools/go/ssa"
)

// T-DRAINSTOP — the merge readers hand out rows whose values point into the
// memory of their sources, valid until the source is read again. When a
// buffered source reports that it has been drained (advance / next return
// false) the rows already placed in the caller's batch may come from it, so the
// source is not refilled before the batch is returned: from the drained edge
// of every such call no call of (*bufferedRowReader).read is reachable inside
// the function. A call whose result is not tested on the spot is accepted only
// when no refill is reachable from the call at all.
func runDrainStopRule(c *Ctx, rule string, min int) {
	p := c.P
	isBRR := func(call ssa.CallInstruction, names ...string) bool {
		for _, n := range names {
			if isCallTo(call, modPath, "bufferedRowReader", n) {
				return true
			}
		}
		return false
	}
	n := 0
	for _, fn := range p.ModuleSSAFuncs() {
		if fn.Origin() != nil || fn.Blocks == nil || fnPkgPath(fn) != modPath {
			continue
		}
		refill := map[*ssa.BasicBlock][]ssa.Instruction{}
		allCalls(fn, false, func(_ *ssa.Function, call ssa.CallInstruction) {
			if isBRR(call, "read") {
				ci := call.(ssa.Instruction)
				refill[ci.Block()] = append(refill[ci.Block()], ci)
			}
		})
		refillReachableFromBlock := func(b *ssa.BasicBlock) ssa.Instruction {
			for blk := range reachableFrom(b) {
				if len(refill[blk]) > 0 {
					return refill[blk][0]
				}
			}
			return nil
		}
		k := 0
		allCalls(fn, false, func(_ *ssa.Function, call ssa.CallInstruction) {
			if !isBRR(call, "advance", "next") {
				return
			}
			v := call.Value()
			ci, ok := call.(ssa.Instruction)
			if v == nil || !ok {
				return
			}
			n++
			k++
			key := FuncKey(fn) + ": drained " + calleeName(call) + " #" + itoa(k) + " is not followed by a refill"
			// refill reachable from the call at all?
			var any ssa.Instruction
			after := false
			for _, ins := range ci.Block().Instrs {
				if ins == ci {
					after = true
					continue
				}
				if after {
					if cc, ok := ins.(ssa.CallInstruction); ok && isBRR(cc, "read") {
						any = ins
					}
				}
			}
			if any == nil {
				for _, s := range ci.Block().Succs {
					if r := refillReachableFromBlock(s); r != nil {
						any = r
					}
				}
			}
			if any == nil {
				c.Check(rule, key, call.Pos(), true, "")
				return
			}
			// the result decides the branch that ends the block
			iff, ok := ci.Block().Instrs[len(ci.Block().Instrs)-1].(*ssa.If)
			drained := -1
			if ok {
				cond := iff.Cond
				neg := false
				for {
					u, ok := cond.(*ssa.UnOp)
					if !ok || u.Op != token.NOT {
						break
					}
					neg = !neg
					cond = u.X
				}
				if cond == v {
					if neg {
						drained = 0
					} else {
						drained = 1
					}
				}
			}
			if drained < 0 {
				c.Check(rule, key, call.Pos(), false, FuncKey(fn)+" does not test the result of "+calleeName(call)+" on the spot although a refill of a buffered source ("+p.Pos(any.Pos())+") can run afterwards in the same call: undecided whether the drained source is read again while rows of the batch still point into its memory")
				return
			}
			r := refillReachableFromBlock(ci.Block().Succs[drained])
			detail := ""
			if r != nil {
				detail = FuncKey(fn) + " goes on after " + calleeName(call) + " reported the source drained and can reach the refill at " + p.Pos(r.Pos()) + " in the same call: the rows already placed in the caller's batch point into the memory of that source, which the refill overwrites (values change, rows are lost or duplicated, the output is no longer the sorted union)"
			}
			c.Check(rule, key, call.Pos(), r == nil, detail)
		})
	}
	c.Min(rule, min)
}
