package main

import (
	"sort"
	"strings"

	"golang.org/x/tools/go/ssa"
)

// T-PAIREDRESET: a function that uses a stateful helper for one self-contained
// batch — it calls the helper's operation and also its reset — resets it on
// every exit that the operation can reach, failing ones included: either the
// reset is deferred at a point every such exit has passed, or each return
// reachable from the operation is dominated by a reset call.
func runPairedResetRule(c *Ctx, rule, opSuffix, resetSuffix string, min int) {
	p := c.P
	n := 0
	for _, fn := range p.ModuleSSAFuncs() {
		if fn.Origin() != nil || fn.Blocks == nil {
			continue
		}
		var ops, resets []ssa.CallInstruction
		allCalls(fn, false, func(_ *ssa.Function, call ssa.CallInstruction) {
			name := calleeName(call)
			switch {
			case strings.HasSuffix(name, opSuffix):
				ops = append(ops, call)
			case strings.HasSuffix(name, resetSuffix):
				resets = append(resets, call)
			}
		})
		if len(ops) == 0 || len(resets) == 0 {
			continue
		}
		for _, op := range ops {
			n++
			isReset := map[ssa.Instruction]bool{}
			deferredBefore := false
			for _, r := range resets {
				if _, isGo := r.(*ssa.Go); isGo {
					continue
				}
				ri := r.(ssa.Instruction)
				isReset[ri] = true
				if _, isDefer := r.(*ssa.Defer); isDefer && dominates(ri, op.(ssa.Instruction)) {
					deferredBefore = true
				}
			}
			var missed []string
			if !deferredBefore {
				// walk forward from the operation; a path ends at the first reset
				seen := map[*ssa.BasicBlock]bool{}
				var visit func(b *ssa.BasicBlock, from int)
				visit = func(b *ssa.BasicBlock, from int) {
					for _, ins := range b.Instrs[from:] {
						if isReset[ins] {
							return
						}
						if ret, ok := ins.(*ssa.Return); ok {
							missed = append(missed, p.Pos(ret.Pos()))
						}
					}
					for _, s := range b.Succs {
						if !seen[s] {
							seen[s] = true
							visit(s, 0)
						}
					}
				}
				start := 0
				for k, ins := range op.Block().Instrs {
					if ins == op.(ssa.Instruction) {
						start = k + 1
					}
				}
				visit(op.Block(), start)
				sort.Strings(missed)
			}
			c.Check(rule, FuncKey(fn)+": the helper state left by "+strings.TrimPrefix(opSuffix, ".")+" is reset on every exit", op.Pos(), len(missed) == 0,
				FuncKey(fn)+" resets the helper only on some exits: the return at "+strings.Join(missed, ", ")+" is reachable from the call at "+p.Pos(op.Pos())+" without passing the reset (or a point where it is deferred), so after a failure the next batch is compared against a row of the previous one and a row that is new to it is dropped")
		}
	}
	c.Min(rule, min)
}
