#!/bin/sh
# usage: import_mutant.sh <prop> <n>   (copies /tmp/rt/<prop>.out/m<n>.* into /verif/seeded/<prop>-m<n>/)
P=$1; N=$2; SRC=/tmp/rt/$P.out; DST=/verif/seeded/$P-m$N
mkdir -p $DST && cp $SRC/m$N.patch $DST/patch.diff && cp $SRC/m${N}_demo_test.go $DST/demo_test.go && cp $SRC/m$N.md $DST/notes.md
echo imported $DST
