#!/bin/sh
# usage: import_w10.sh <prop> <n-in-wave> <new-number>  (copies /tmp/rt/<prop>-w10.out/m<n>.* into /verif/seeded/<prop>-m<new>/)
P=$1; N=$2; K=$3; SRC=/tmp/rt/$P-w10.out; DST=/verif/seeded/$P-m$K
mkdir -p $DST && cp $SRC/m$N.patch $DST/patch.diff && cp $SRC/m${N}_demo_test.go $DST/demo_test.go && cp $SRC/m$N.md $DST/notes.md
echo imported $DST
