#!/bin/sh
# usage: run_refactors.sh <dir-with-rN.patch> [...]
# Applies each behaviour-preserving patch to /repo, runs every claimed property on it
# (`pqverif -sweep`), reverts. Any reported rule instance is a false alarm of the checker.
cd /verif
. /verif/env.sh >/dev/null 2>&1
R=${VERIF_REPO:-/repo}   # a scratch worktree may stand in for /repo so that shards can run side by side
[ -n "$(git -C $R status --porcelain)" ] && { echo "$R not clean"; exit 2; }
for d in "$@"; do
for pf in $d/*.patch; do
  id=$(basename $d)/$(basename $pf .patch)
  git -C $R apply $(realpath $pf) 2>/dev/null || { echo "$id: patch does not apply"; continue; }
  out=$(./bin/pqverif -sweep -repo $R -known /verif/known_findings.json 2>&1)
  git -C $R checkout -q -- . ; git -C $R clean -fdq
  HIT=$(echo "$out" | grep "^SWEEP\|^LOAD-FAILED" | cut -c1-400 | tr '\n' ' ')
  echo "$id: ${HIT:- silent}"
done
done
