#!/bin/sh
# usage: run_refactors.sh <dir-with-rN.patch> [...]
# Applies each behaviour-preserving patch to /repo, runs every claimed property on it
# (`pqverif -sweep`), reverts. Any reported rule instance is a false alarm of the checker.
cd /verif
. /verif/env.sh >/dev/null 2>&1
[ -n "$(git -C /repo status --porcelain)" ] && { echo "/repo not clean"; exit 2; }
for d in "$@"; do
for pf in $d/*.patch; do
  id=$(basename $d)/$(basename $pf .patch)
  git -C /repo apply $(realpath $pf) 2>/dev/null || { echo "$id: patch does not apply"; continue; }
  out=$(./bin/pqverif -sweep -known /verif/known_findings.json 2>&1)
  git -C /repo checkout -q -- . ; git -C /repo clean -fdq
  HIT=$(echo "$out" | grep "^SWEEP\|^LOAD-FAILED" | cut -c1-400 | tr '\n' ' ')
  echo "$id: ${HIT:- silent}"
done
done
