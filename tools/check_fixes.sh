#!/bin/sh
# For every fix: commit of /repo, revert it alone in a scratch worktree and run the owning check
# against that worktree: the rule that found the defect must report it again.
. /verif/env.sh
WT=/tmp/fixcheck-wt
git -C /repo worktree remove --force $WT 2>/dev/null
git -C /repo worktree add -q --detach $WT HEAD || exit 2
while read commit prop rule tier; do
  [ -z "$commit" ] && continue
  git -C $WT reset -q --hard HEAD
  ok=1
  for c1 in $(echo $commit | tr '+' ' '); do
    # a three-way revert tolerates later commits that touched neighbouring lines
    git -C $WT revert --no-commit $c1 >/dev/null 2>&1 || { git -C $WT revert --abort >/dev/null 2>&1; git -C $WT reset -q --hard HEAD; git -C /repo show $c1 -- . | git -C $WT apply -R 2>/dev/null || ok=0; }
  done
  if [ $ok = 0 ]; then echo "$commit $prop: cannot revert"; continue; fi
  out=$(/verif/bin/pqverif -prop $prop -tier ${tier:-quick} -repo $WT -evidence /tmp/fixcheck-ev -known /verif/known_findings.json 2>&1)
  if echo "$out" | grep -q "rule=$rule"; then echo "$commit $prop: reverted fix is reported by $rule"; else echo "$commit $prop: NOT reported by $rule"; fi
done <<LIST
ffc1b5e C13 C13.provenance
79b0559 C07 C07.hashdomain
3d6d1f1 C06 C06.nullpages
64ed3a0 C05 C05.indexer
bd9528d+f5b4fd7 C17 C17.reset
d7c8347+ba3ecd5 C17 C17.reset
bd9528d C17 C17.own
d0cc302 C11 C11.rows
8bd7895 C08 C08.coherence
26c1781 C08 C08.prefix
a3cb032 C17 C17.own
fdf1794 C14 C14.errflow
288316b C17 C17.reset
bb6a35c+c4d33bf C08 C08.reposition
ffad523+90d470c C05 C05.boundary
a084387 C20 C20.result
bb6a35c C08 C08.position
ebbf229+9a87f9b+c15ed5e C08 C08.reset
8c82aca C10 C10.direction
1da8b63 C09 C09.bounds
cb78194 C12 C12.mergeconv
7f9b906 C09 C09.bounds
da81c69 C05 C05.order
4a537a7 C05 C05.sorting
85d9ea4 C06 C06.nullpages
0a0ad91 C14 C14.copylen
50c76da+bb27335 C14 C14.chunkeof
0a27348 C18 C18.missingkey
33f53b2 C01 C01.lazybuffer
ffad523 C05 C05.boundary
887f955 C08 C08.loopcond
ebbf229+9a87f9b C08 C08.errexit
d7c8347 C18 C18.fileid
e4db022+4c9c370 C20 C20.retry
508f87a C17 C17.reset
200dc39 C07 C07.strategies
e6f927d C16 C16.destreads
ae28e34 C03 C03.nullwidth thorough
550d93b C05 C05.nanbounds
b76b929 C14 C14.rollback
13bb510 C05 C05.nanbounds
8993130 C03 C03.stride
14621d3 C17 C17.reset
d0a531d C08 C08.slicekeep
38200dd C08 C08.slicekeep
b6c22a4 C08 C08.coherence
f53f4fe C17 C17.regrow
5768bef C03 C03.loopfresh
51a54bc C08 C08.rowsfollow
3c07812 C16 C16.retainrow
8551e7c C09 C09.cutnulls
6ed1442 C04 C04.viewstate
35991d0 C04 C04.offsetsrc
ebbf229 C08 C08.errexit
75d9778 C18 C18.nilconfig
63819ac C09 C09.rebuild
7dfbaf4 C09 C09.rebuild
50c76da C14 C14.chunkeof
e4db022 C20 C20.pool
0b60194 C15 C15.bucket
2bd1055 C08 C08.cursorreset
454c1ef C01 C01.timeunit
6f1dab0 C03 C03.headercopy
3f8cad3 C01 C01.unitpair
cd01177 C01 C01.unitpair
15c4f0f C18 C18.signed
12fba99 C11 C11.stagefail
07eafe6 C07 C07.filterless
LIST
git -C /repo worktree remove --force $WT
rm -rf /tmp/fixcheck-ev
