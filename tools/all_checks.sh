#!/bin/sh
# Runs every registered quick and thorough check on /repo's working tree; prints failures only.
cd /verif
rc=0
for p in C01 C02 C03 C04 C05 C06 C07 C08 C09 C10 C11 C12 C13 C14 C15 C16 C17 C18 C19 C20; do
  for t in quick thorough; do
    out=$(./check $p $t 2>&1) || { echo "FAIL $p $t"; echo "$out" | grep -A1 "rule=" | cut -c1-400; rc=1; }
  done
done
python3-vt validate.py | tail -1
exit $rc
