#!/bin/sh
# usage: confirm_mutant.sh <seeded-id>
# In a scratch worktree of /repo HEAD: demo passes clean, patch applies, builds, demo fails, suite matches baseline.
ID=$1; D=/verif/seeded/$ID; WT=/tmp/confirm-$ID
. /verif/env.sh
git -C /repo worktree add -q --detach $WT HEAD || exit 2
cleanup() { git -C /repo worktree remove --force $WT; }
cd $WT
TEST=$(grep -o 'func Test[A-Za-z0-9_]*' $D/demo_test.go | head -1 | sed 's/func //')
RUN=$(grep -o 'func Test[A-Za-z0-9_]*' $D/demo_test.go | sed 's/func //' | paste -sd'|')
cp $D/demo_test.go zz_demo_$$_test.go
go test -vet=off -count=1 -run "^($RUN)\$" . > /tmp/confirm-$ID.clean.log 2>&1; CLEAN=$?
git apply $D/patch.diff || { echo "$ID: PATCH DOES NOT APPLY"; cleanup; exit 1; }
go build ./... > /tmp/confirm-$ID.build.log 2>&1; BUILD=$?
go test -vet=off -count=1 -run "^($RUN)\$" . > /tmp/confirm-$ID.mut.log 2>&1; MUT=$?
rm zz_demo_$$_test.go
go test -mod=mod -json -vet=off -count=1 -timeout 25m ./... > /tmp/confirm-$ID.suite.json 2>/dev/null
SUITE=$(python3 - <<PY
import json
base=set(json.load(open('/root/.vp/BASELINE.json'))['stable_pass'])
res={}
for l in open('/tmp/confirm-$ID.suite.json'):
    try: e=json.loads(l)
    except Exception: continue
    if e.get('Test') and e.get('Action') in ('pass','fail','skip'):
        res[e['Package']+'::'+e['Test']]=e['Action']
missing=sorted(k for k in base if res.get(k)!='pass')
print(len(missing), ";".join(missing[:3]))
PY
)
echo "$ID: demo_clean_exit=$CLEAN build_exit=$BUILD demo_mutant_exit=$MUT suite_not_passing=$SUITE"
cleanup
