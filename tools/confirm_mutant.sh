#!/bin/sh
# usage: confirm_mutant.sh <seeded-id>
# In a scratch worktree of /repo HEAD (removed afterwards): the demonstration passes on the clean tree,
# the patch applies and builds, the demonstration fails with it, and the pinned suite still passes.
# Writes /verif/seeded/<id>/meta.json.
ID=$1; D=/verif/seeded/$ID; WT=/tmp/confirm-$ID
. /verif/env.sh
HEAD=$(git -C /repo rev-parse --short HEAD)
git -C /repo worktree add -q --detach $WT HEAD || exit 2
cleanup() { git -C /repo worktree remove --force $WT; }
cd $WT
RUN=$(grep -o 'func Test[A-Za-z0-9_]*' $D/demo_test.go | sed 's/func //' | paste -sd'|')
cp $D/demo_test.go zz_demo_$$_test.go
go test -vet=off -count=1 -run "^($RUN)\$" . > /tmp/confirm-$ID.clean.log 2>&1; CLEAN=$?
APPLY=0; git apply $D/patch.diff || APPLY=1
BUILD=1; MUT=0; SUITE="not run"
if [ $APPLY = 0 ]; then
go build ./... > /tmp/confirm-$ID.build.log 2>&1; BUILD=$?
go test -vet=off -count=1 -run "^($RUN)\$" . > /tmp/confirm-$ID.mut.log 2>&1; MUT=$?
rm zz_demo_$$_test.go
go test -mod=mod -json -vet=off -count=1 -timeout 25m ./... > /tmp/confirm-$ID.suite.json 2>/dev/null
SUITE=$(python3 - <<PY
import json
base=set(json.load(open('/root/.vp/BASELINE.json'))['stable_pass'])
res={}
for l in open('/tmp/confirm-$ID.suite.json'):
    try: e=json.loads(l)
    except Exception: continue
    if e.get('Test') and e.get('Action') in ('pass','fail','skip'):
        res[e['Package']+'::'+e['Test']]=e['Action']
missing=sorted(k for k in base if res.get(k)!='pass')
print(len(missing))
PY
)
fi
PROP=${ID%%-*}
python3 - <<PY
import json,re
notes=open('$D/notes.md').read()
m={"id":"$ID","breaks_property":"$PROP","origin":"written by an independent sub-agent given only the text of the property and a scratch worktree of /repo (nothing from /verif)",
 "what_and_needs": notes.strip()[:2500],
 "confirmed_against_repo_commit":"$HEAD",
 "confirmation":{"how":"tools/confirm_mutant.sh $ID in a scratch worktree of /repo HEAD (removed afterwards)",
   "demo_on_clean_tree_exit": $CLEAN, "patch_applies": $APPLY==0, "go_build_exit": $BUILD, "demo_with_patch_exit": $MUT,
   "pinned_suite_tests_not_passing_with_patch": "$SUITE", "demo_tests": "$RUN"},
 "confirmed": ($CLEAN==0 and $APPLY==0 and $BUILD==0 and $MUT!=0 and "$SUITE"=="0")}
json.dump(m,open('$D/meta.json','w'),indent=1)
print("$ID confirmed=%s clean=%s apply=%s build=%s mutant=%s suite_missing=%s"%(m['confirmed'],$CLEAN,$APPLY,$BUILD,$MUT,"$SUITE"))
PY
rm -f /tmp/confirm-$ID.*.log /tmp/confirm-$ID.suite.json
cleanup
