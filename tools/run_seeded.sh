#!/bin/sh
# usage: run_seeded.sh [ids...]  — applies each seeded patch to /repo, runs every claimed
# property on it (one load, `pqverif -sweep`, quick configuration), reverts.
cd /verif
. /verif/env.sh >/dev/null 2>&1
R=${VERIF_REPO:-/repo}   # a scratch worktree may stand in for /repo so that shards can run side by side
IDS=${*:-$(ls seeded)}
[ -n "$(git -C $R status --porcelain)" ] && { echo "$R not clean"; exit 2; }
for id in $IDS; do
  git -C $R apply /verif/seeded/$id/patch.diff 2>/dev/null || { echo "$id: patch does not apply"; continue; }
  out=$(./bin/pqverif -sweep -repo $R -known /verif/known_findings.json 2>&1)
  git -C $R checkout -- .
  HIT=$(echo "$out" | grep "^SWEEP\|^LOAD-FAILED" | sed 's/^SWEEP //' | python3 -c "
import sys,re
parts=[]
for l in sys.stdin:
    l=l.strip()
    if l.startswith('LOAD-FAILED'): parts.append(l[:120]); continue
    pid,rest=l.split(': ',1)
    rules=sorted(set(re.findall(r'(C\d\d\.[A-Za-z0-9_]+) \{',rest)))
    parts.append(pid+'['+','.join(rules)+']')
print(' '.join(parts))")
  echo "$id: ${HIT:- MISSED}"
done
