#!/bin/sh
# usage: run_seeded.sh [ids...]  — applies each seeded patch to /repo, runs every claimed quick check, reverts.
cd /verif
IDS=${*:-$(ls seeded)}
PROPS=$(python3 -c "import json;print(' '.join(c['property_id'] for c in json.load(open('MANIFEST.json'))['checks']))")
[ -n "$(git -C /repo status --porcelain)" ] && { echo "/repo not clean"; exit 2; }
for id in $IDS; do
  git -C /repo apply /verif/seeded/$id/patch.diff || { echo "$id: patch does not apply"; continue; }
  HIT=""
  for p in $PROPS; do
    out=$(VERIF_NO_EVIDENCE=1 ./bin/pqverif -prop $p -tier quick -evidence /tmp/seeded-ev -known /verif/known_findings.json 2>&1)
    if echo "$out" | grep -q "^VIOLATION"; then
      rules=$(echo "$out" | grep -o "rule=[A-Za-z0-9_.]*" | sort -u | paste -sd, | sed 's/rule=//g')
      HIT="$HIT $p[$rules]"
    fi
  done
  git -C /repo checkout -- .
  echo "$id: ${HIT:- MISSED}"
done
