#!/bin/sh
# Runs the repository's pinned suite on /repo (or $1) and compares with BASELINE.json stable_pass.
REPO=${1:-/repo}
. /verif/env.sh
cd "$REPO" && go test -mod=mod -json -vet=off -count=1 -timeout 25m ./... > /tmp/baseline_run.json 2>/tmp/baseline_run.err
python3 - <<'PY'
import json
base=set(json.load(open('/root/.vp/BASELINE.json'))['stable_pass'])
res={}
for l in open('/tmp/baseline_run.json'):
    try: e=json.loads(l)
    except Exception: continue
    if e.get('Test') and e.get('Action') in ('pass','fail','skip'):
        res[e['Package']+'::'+e['Test']]=e['Action']
passed={k for k,v in res.items() if v=='pass'}
missing=sorted(base-passed)
print("baseline stable_pass=%d passed_now=%d missing_or_failing=%d"%(len(base),len(passed),len(missing)))
for m in missing[:20]: print("  NOT PASSING:",m,res.get(m))
PY
